"""C31 - method saves use optimistic concurrency without lost updates.

Statement: a method save is accepted only if it was based on the current method version.  Of any set of saves based on
the same version, including concurrent ones, at most one is accepted, and each accepted save increases the version by
exactly one.

Case    : {"pre": p, "saves": [{"base": -1|0|1, "reply": "ok"|"err"|"err_caller"[, "cancel": true][, "same": true]}, ...],
           "schedule": ["s0","s1","x0","c0",...]}
          p sequential saves, each based on the version the unit reports at that moment, come first (they are judged like
          all others) and leave the method at version v0.  Then save i (user u<i>, its own method text) is posted with
          version v0 + base_i through the REAL route function
          openpectus.aggregator.routers.process_unit.save_method -> FromFrontend.save_method -> AggregatorDispatcher.rpc_call.
          The engine end of the websocket RPC is the FakeEngineChannel of vp.harness.agg_h whose responder PARKS every
          MethodMsg on a future.  Schedule event "s<i>" posts save i, "c<i>" makes the engine's reply to save i available
          (the parked call returns; a call that reaches the engine later is answered at once; a save that was refused before
          it reached the engine is not affected).  "x<i>" (only for saves with "cancel") cancels the request task of save i -
          the client went away - wherever it is: queued behind another save, or parked in the engine round trip; the engine's
          reply still becomes available at c<i>.  A save with "same" posts exactly the lines the unit has at that moment
          (saved without an edit).  After every event the loop runs until nothing moves any more.
Observed: a chronological log with the unit's method version at every engine receipt, every save completion and every
          event boundary.  The version can only change inside a task step that ends in one of those log entries, so each
          change is attributed to exactly one entry.
Oracle  : (1) a save that completes ACCEPTED (the route returned a version) must have base == the version logged
              immediately before its completion                    -> accepted:base-outdated-during-engine-round-trip (base was
              current when the save was posted) | accepted:base-not-current-when-posted
          (2) an accepted save must change the version by exactly +1 and return exactly that version
                                                                   -> version-step:accepted:<delta> | returned-version:<diff>
              (not judged for a save already reported under (1): overwriting a newer version is its consequence)
          (3) every other log entry (engine receipt, refused save, event boundary) must leave the version unchanged
                                                                   -> version-changed:<entry kind>
          (4) among all saves (the p preliminary ones included) with the same base at most one is accepted
                                                                   -> same-base:two-accepted  (only when not every surplus
              accepted save is already reported under (1))
          (1)-(3) together imply  final version == v0 + number of accepted saves ; it is checked as an internal assertion.
Cancel  : a cancelled request is neither accepted nor refused for its client.  If the method version changes in a step that no
          completing save explains, while a cancelled save that reached the engine is outstanding, that save counts as ACCEPTED at
          that moment and rules (1), (2), (4) apply to it; without such a save the change is version-changed:outside-save.
Refused : AggregatorCallerException (HTTP 400) / AggregatorInternalException (HTTP 500) raised by the route.  Any other
          exception propagates (harness error).
"""
from __future__ import annotations

import asyncio
import contextvars
import itertools

from vp.core.framework import Violation
from vp.harness.agg_h import AggHarness, HarnessError

ID = "C31"
LEVEL = "exploration"
ENGINE = "aggregator_harness"
DESIGN_REF = "DESIGN.md §3 C31"
TECHNIQUE = ("exhaustive enumeration of post/engine-reply interleavings of 2-3 (thorough: 4) concurrent method saves on the real "
             "route + FromFrontend.save_method + AggregatorDispatcher.rpc_call; the fake engine parks each MethodMsg on a future "
             "the schedule resolves; version log attributed per task step")
RULE = ("All schedules of the events s_i (save i posted) and c_i (engine reply to save i available) with s_i before c_i, up to "
        "renaming of the saves (s_0 < s_1 < ... ; every assignment of bases and replies to the saves is enumerated, so each labelled "
        "ordering is covered by one canonical ordering) x base version in {current-1, current, current+1} per save x engine reply in "
        "{ok, err, err_caller} per save x number of preliminary sequential saves; additional families: two saves (thorough: three) of "
        "which one or two requests are cancelled (event x_i between s_i and c_i, every position), and saves that re-post the "
        "unit's current lines unchanged. Non-trivial = at least two saves with the same "
        "base are in flight at the same time (the second is posted before the engine reply to the first is available). Distinct = "
        "distinct (pre, saves, schedule).")
ASSUMPTIONS = [
    "the engine answers a MethodMsg with SuccessMessage or ErrorMessage (caller_error False is what the engine sends; True is allowed by the protocol); transport failures and disconnects during the round trip are not generated",
    "one aggregator process, one asyncio loop: the only suspension point of save_method is the engine round trip, which the schedule controls",
    "'accepted' = the save_method route returns a version; AggregatorCallerException/AggregatorInternalException = refused (HTTP 400/500)",
    "a client may cancel its request at any time; the engine still answers the MethodMsg it received; a cancelled save whose work continues and changes the version is judged as an accepted save",
    "'current version' at acceptance = the version of the unit's method immediately before the task step in which the save completes",
]
# A family: n saves, up to `cancel` of them with a cancelled request, up to `same` of them re-saving the unchanged method.
TIERS = {
    "quick": {"pre": [0, 1], "exhaustive": True, "budget_s": 150, "families": [
        {"n": 2, "replies": ["ok", "err", "err_caller"]},
        {"n": 3, "replies": ["ok", "err", "err_caller"]},
        {"n": 2, "replies": ["ok", "err"], "cancel": 1},
        {"n": 2, "replies": ["ok", "err"], "same": 2},
    ]},
    "thorough": {"pre": [0, 1, 2], "exhaustive": True, "budget_s": 850, "families": [
        {"n": 2, "replies": ["ok", "err", "err_caller"]},
        {"n": 3, "replies": ["ok", "err", "err_caller"]},
        {"n": 4, "replies": ["ok", "err"]},
        {"n": 2, "replies": ["ok", "err", "err_caller"], "cancel": 2},
        {"n": 3, "replies": ["ok", "err"], "cancel": 1},
        {"n": 2, "replies": ["ok", "err", "err_caller"], "same": 2},
        {"n": 3, "replies": ["ok", "err"], "same": 1},
        {"n": 2, "replies": ["ok", "err"], "cancel": 1, "same": 1},
    ]},
}
BASES = (-1, 0, 1)
REPLIES = ("ok", "err", "err_caller")
MAX_SAVES = 5
UNIT = "E1"


# ---- schedules ---------------------------------------------------------------------------------------------

def canonical_schedules(n: int, cancelled=()):
    """all sequences over the events s_i (save i posted), c_i (engine reply to save i available) and - for i in `cancelled` -
    x_i (request i cancelled by its client) with s_i < c_i, s_i < x_i < c_i and s_0 < s_1 < ... (saves are named in posting order)"""
    out = []
    total = 2 * n + len(cancelled)

    def rec(seq, next_s, open_x, open_c):
        if len(seq) == total:
            out.append(list(seq))
            return
        if next_s < n:
            if next_s in cancelled:
                rec(seq + ["s%d" % next_s], next_s + 1, open_x + [next_s], open_c)
            else:
                rec(seq + ["s%d" % next_s], next_s + 1, open_x, open_c + [next_s])
        for i in open_x:
            rec(seq + ["x%d" % i], next_s, [k for k in open_x if k != i], open_c + [i])
        for i in open_c:
            rec(seq + ["c%d" % i], next_s, open_x, [k for k in open_c if k != i])
    rec([], 0, [], [])
    return out


def _subsets(n, lo, hi):
    for k in range(lo, hi + 1):
        yield from itertools.combinations(range(n), k)


def enumerate_cases(cfg):
    for fam in cfg["families"]:
        n, max_cancel, max_same = fam["n"], fam.get("cancel", 0), fam.get("same", 0)
        # the plain family has neither; a family with cancel/same enumerates only cases that have at least one of them
        for cancelled in _subsets(n, 0, max_cancel):
            for same in _subsets(n, 0, max_same):
                if (max_cancel or max_same) and not cancelled and not same:
                    continue
                if max_cancel and max_same and not (cancelled and same):
                    continue
                scheds = canonical_schedules(n, cancelled)
                for pre in cfg["pre"]:
                    for sched in scheds:
                        for bases in itertools.product(BASES, repeat=n):
                            for replies in itertools.product(fam["replies"], repeat=n):
                                saves = []
                                for i in range(n):
                                    sv = {"base": bases[i], "reply": replies[i]}
                                    if i in cancelled:
                                        sv["cancel"] = True
                                    if i in same:
                                        sv["same"] = True
                                    saves.append(sv)
                                yield {"pre": pre, "saves": saves, "schedule": sched}


# ---- domain guard ------------------------------------------------------------------------------------------

def _valid(case) -> bool:
    if not isinstance(case, dict):
        return False
    pre, saves, sched = case.get("pre"), case.get("saves"), case.get("schedule")
    if not isinstance(pre, int) or isinstance(pre, bool) or not 0 <= pre <= 3:
        return False
    if not isinstance(saves, list) or not 1 <= len(saves) <= MAX_SAVES:
        return False
    for s in saves:
        if not isinstance(s, dict) or s.get("base") not in BASES or isinstance(s.get("base"), bool) or s.get("reply") not in REPLIES:
            return False
        if s.get("cancel", False) not in (True, False) or s.get("same", False) not in (True, False):
            return False
    if not isinstance(sched, list) or not all(isinstance(e, str) for e in sched):
        return False
    n = len(saves)
    want = sorted(["s%d" % i for i in range(n)] + ["c%d" % i for i in range(n)] + ["x%d" % i for i in range(n) if saves[i].get("cancel")])
    if sorted(sched) != want:
        return False
    for i in range(n):
        if sched.index("s%d" % i) > sched.index("c%d" % i):
            return False
        if saves[i].get("cancel") and not sched.index("s%d" % i) < sched.index("x%d" % i) < sched.index("c%d" % i):
            return False
    return True


# ---- execution ---------------------------------------------------------------------------------------------

def _method_dto(Dto, version: int, tag: str, current=None):
    """the method a client posts: its own text, or - current given - exactly the lines the unit has now (saved without an edit)"""
    if current is not None:
        return Dto.Method(lines=[Dto.MethodLine(id=l.id, content=l.content) for l in current.lines], version=version, last_author="")
    return Dto.Method(lines=[Dto.MethodLine(id="id_1", content="Mark: " + tag), Dto.MethodLine(id="id_2", content="")],
                      version=version, last_author="")


_CURRENT_SAVE: contextvars.ContextVar = contextvars.ContextVar("c31_current_save", default=None)


def _execute(case):
    """-> dict(v0, log=[(kind, i, version)], outcome={i: ("accepted", returned) | ("refused", excname)}, received=[...])"""
    import openpectus.aggregator.routers.dto as Dto
    import openpectus.protocol.aggregator_messages as AM
    from openpectus.aggregator.exceptions import AggregatorCallerException, AggregatorInternalException
    from openpectus.aggregator.routers import process_unit

    saves, sched, pre = case["saves"], case["schedule"], case["pre"]
    n = len(saves)
    with AggHarness() as h:
        h.register(UNIT)
        if not h.connect(UNIT):
            raise HarnessError("engine could not connect")
        h.send(UNIT, h.uod_info_msg(["A"], 1.0))
        unit_id = h.engine_id(UNIT)
        agg = h.aggregator
        ch = h.engine_channel(UNIT)

        def version() -> int:
            ed = agg.get_registered_engine_data(unit_id)
            if ed is None:
                raise HarnessError("engine data vanished")
            return ed.method.version

        log: list = []
        outcome: dict = {}
        parked: dict = {}        # save index -> future the engine call waits on
        reply_ready: set = set()
        received: list = []      # (save index | "p<k>", method version sent to the engine)
        bases_abs: dict = {}     # save index | "p<k>" -> base version it was posted with

        def reply_for(i):
            kind = saves[i]["reply"]
            if kind == "ok":
                return AM.SuccessMessage()
            return AM.ErrorMessage(message="Failed to set method", exception_message="generated", caller_error=(kind == "err_caller"))

        async def responder(msg):
            if not isinstance(msg, AM.MethodMsg):
                raise HarnessError("unexpected rpc %r" % type(msg).__name__)
            i = _CURRENT_SAVE.get()         # set by post(); the rpc runs in the task of the save (or a task it created)
            if i is None:
                raise HarnessError("rpc outside a save")
            received.append((i, msg.method.version))
            log.append(("engine-receive", i, version()))
            if isinstance(i, str):              # a preliminary save: answered at once
                return AM.SuccessMessage()
            if i not in reply_ready:
                fut = asyncio.get_running_loop().create_future()
                parked[i] = fut
                try:
                    await fut
                finally:
                    del parked[i]
            return reply_for(i)
        ch.responder = responder

        async def post(i, base_version, tag, user, same=False):
            bases_abs[i] = base_version
            _CURRENT_SAVE.set(i)
            current = agg.get_registered_engine_data(unit_id).method if same else None
            try:
                res = await process_unit.save_method(user_name=user, user_id="id-" + user, user_roles=set(), unit_id=unit_id,
                                                     method_dto=_method_dto(Dto, base_version, tag, current), agg=agg)
            except (AggregatorCallerException, AggregatorInternalException) as ex:
                outcome[i] = ("refused", type(ex).__name__)
                log.append(("complete-refused", i, version()))
                return
            except asyncio.CancelledError:
                # the client went away: from its view the save is neither accepted nor refused
                outcome[i] = ("cancelled", None)
                log.append(("complete-cancelled", i, version()))
                return
            outcome[i] = ("accepted", res.version)
            log.append(("complete-accepted", i, version()))

        async def drain():
            # every step a save can take is one task step; 12 turns of the loop are far more than any chain needs and a task
            # blocked on something else (e.g. a lock held by a parked save) simply stays blocked.  A version change that no
            # log entry of a save explains (work continuing behind a cancelled request) is logged the turn it happens.
            for _ in range(12):
                await asyncio.sleep(0)
                if version() != log[-1][2]:
                    log.append(("background", None, version()))

        async def scenario():
            log.append(("boundary", None, version()))
            for k in range(pre):
                # a sequential save based on the version a client reads now; judged like every other save
                await post("p%d" % k, version(), "pre%d" % k, "p%d" % k)
                log.append(("boundary", None, version()))
            v0 = version()
            tasks = []
            started: dict = {}
            for ev in sched:
                i = int(ev[1:])
                if ev[0] == "s":
                    tasks.append(asyncio.ensure_future(post(i, v0 + saves[i]["base"], "s%d" % i, "u%d" % i,
                                                            bool(saves[i].get("same")))))
                    started[i] = tasks[-1]
                elif ev[0] == "x":
                    if not started[i].done():
                        started[i].cancel()
                else:
                    reply_ready.add(i)
                    log.append(("reply-available", i, version()))
                    if i in parked and not parked[i].done():
                        parked[i].set_result(None)
                await drain()
                log.append(("boundary", None, version()))
            for _ in range(50):
                if all(t.done() for t in tasks):
                    break
                await drain()
            if not all(t.done() for t in tasks):
                raise HarnessError("a save never completed although every engine reply is available")
            for t in tasks:
                t.result()          # re-raise anything unexpected
            await drain()           # work left behind by a cancelled request
            log.append(("boundary", None, version()))
            return v0

        v0 = h.run(scenario())
        return {"v0": v0, "log": log, "outcome": outcome, "received": received, "final": log[-1][2], "bases": bases_abs}


# ---- oracle ------------------------------------------------------------------------------------------------

def _judge(case, ex):
    out: list[Violation] = []
    saves = case["saves"]
    n = len(saves)
    v0, log, outcome, bases = ex["v0"], ex["log"], ex["outcome"], ex["bases"]
    pre = case["pre"]
    posted_at: dict = {}     # save -> version current when it was posted = version at the boundary before its s event
    # boundaries: one before the first preliminary save, one after each of them, then one after every schedule event
    boundaries = [e[2] for e in log if e[0] == "boundary"]
    for k in range(pre):
        posted_at["p%d" % k] = boundaries[k]
    for pos, ev in enumerate(case["schedule"]):
        if ev[0] == "s":
            posted_at[int(ev[1:])] = boundaries[pre + pos]
    primary: set = set()
    prev = log[0][2]
    accepted_steps = 0
    cancelled_seen: list = []      # saves whose request was cancelled so far, in log order
    credited: set = set()          # cancelled saves a later version change has been attributed to
    reached = {j for j, _ in ex["received"]}
    replied: set = set()           # saves whose engine reply is available so far
    completes_at = {e[1]: k for k, e in enumerate(log) if e[0] == "complete-accepted"}
    early: set = set()             # accepted saves whose version change was seen (and judged) before they returned to the client
    for pos, (kind, i, v) in enumerate(log[1:], start=1):
        delta = v - prev
        if kind == "complete-cancelled":
            cancelled_seen.append(i)
        if kind == "reply-available":
            replied.add(i)
        if kind == "complete-accepted" and i in early:
            if delta != 0:
                out.append(Violation("version-step:accepted:%+d" % (1 + delta), "accepted save %r changed the method version again when it "
                                     "returned (from %d to %d)" % (i, prev, v), case))
            prev = v
            continue
        background = None
        if kind != "complete-accepted" and delta != 0:
            # a version change in a step in which no save returns to its client.  It belongs (a) to a save that installs its method
            # in a task of its own and returns a turn later: one whose engine reply is available, that is accepted later and returns
            # exactly this version; else (b) to work that went on behind a cancelled request - that save then counts as accepted
            # (its client does not learn it, but the method and its version are what the statement is about)
            cand = [j for j, k in sorted(completes_at.items(), key=lambda jk: jk[1])
                    if k > pos and j not in early and j in replied and j in reached and outcome[j][1] == v]
            if cand:
                background = ([j for j in cand if bases[j] == prev] or cand)[0]
                early.add(background)
            else:
                cand = [j for j in cancelled_seen if j not in credited and j in reached and j in replied]
                if cand:
                    background = ([j for j in cand if bases[j] == prev] or cand)[0]
                    credited.add(background)
                    outcome[background] = ("accepted-after-cancel", None)
        if kind == "complete-accepted" or background is not None:
            accepted_steps += 1
            if background is not None:
                i = background
                returned = outcome[i][1] if outcome[i][1] is not None else prev + 1     # a cancelled request returns nothing
            else:
                returned = outcome[i][1]
            base = bases[i]
            if base != prev:
                primary.add(i)
                if posted_at.get(i) == base:
                    out.append(Violation("accepted:base-outdated-during-engine-round-trip",
                                         "save %r (base version %d, current when it was posted) was accepted although the method had "
                                         "reached version %d before its engine round trip ended; it returned version %d and the unit's "
                                         "method version is now %d (the version-%d method of the other save is overwritten)"
                                         % (i, base, prev, returned, v, prev), case))
                else:
                    out.append(Violation("accepted:base-not-current-when-posted",
                                         "save %r with base version %d was accepted; the current version was %r when it was posted and %d "
                                         "when it was accepted (returned %d, version now %d)"
                                         % (i, base, posted_at.get(i), prev, returned, v), case))
            else:
                if delta != 1:
                    out.append(Violation("version-step:accepted:%+d" % delta,
                                         "accepted save %r changed the method version from %d to %d (must be exactly +1)" % (i, prev, v), case))
                if returned != prev + 1:
                    out.append(Violation("returned-version:%+d" % (returned - (prev + 1)),
                                         "accepted save %r returned version %d, the version before it was %d" % (i, returned, prev), case))
        elif delta != 0:
            label = {"engine-receive": "before-engine-reply", "complete-refused": "by-refused-save", "boundary": "outside-save",
                     "background": "outside-save", "complete-cancelled": "by-cancelled-request", "reply-available": "outside-save"}[kind]
            why = ""
            if kind == "complete-refused":
                why = " (refused with %s, engine reply %r)" % (outcome[i][1], saves[i]["reply"] if isinstance(i, int) else "ok")
            out.append(Violation("version-changed:" + label,
                                 "the method version went from %d to %d at log entry %s of save %r%s - no save was accepted in that step"
                                 % (prev, v, kind, i, why), case))
        prev = v
    # same base, the preliminary (sequential) saves included
    by_base: dict = {}
    for i in ["p%d" % k for k in range(pre)] + list(range(n)):
        if outcome[i][0] in ("accepted", "accepted-after-cancel"):
            by_base.setdefault(bases[i], []).append(i)
    for base in sorted(by_base):
        acc = by_base[base]
        if len(acc) > 1:
            surplus = [a for a in acc if a not in primary]
            if len(surplus) > 1:
                out.append(Violation("same-base:two-accepted",
                                     "saves %r were all based on version %d and all accepted" % (acc, base), case))
    # internal consistency: sum of attributed steps == final - initial
    if not out and ex["final"] != log[0][2] + accepted_steps:
        raise HarnessError("version bookkeeping inconsistent: initial=%d accepted=%d final=%d" % (log[0][2], accepted_steps, ex["final"]))
    return out


def _classify(case, ex):
    saves, sched = case["saves"], case["schedule"]
    n = len(saves)
    classes = ["saves=%d" % n, "pre=%d" % case["pre"]]
    pos = {e: k for k, e in enumerate(sched)}
    overlap_same_base = False
    any_overlap = False
    for i in range(n):
        for j in range(i + 1, n):
            if pos["s%d" % j] < pos["c%d" % i] and pos["s%d" % i] < pos["c%d" % j]:
                any_overlap = True
                if saves[i]["base"] == saves[j]["base"]:
                    overlap_same_base = True
    if any_overlap:
        classes.append("overlap")
    if overlap_same_base:
        classes.append("overlap:same-base")
    if all(pos["c%d" % i] < pos["s%d" % (i + 1)] for i in range(n - 1)):
        classes.append("sequential")
    acc = sum(1 for i in range(n) if ex["outcome"][i][0] in ("accepted", "accepted-after-cancel"))
    classes.append("accepted=%d" % acc)
    if any(s.get("cancel") for s in saves):
        classes.append("with-cancelled-request")
        for i in range(n):
            if saves[i].get("cancel"):
                where = "before-engine" if i not in {j for j, _ in ex["received"]} else "during-round-trip"
                classes.append("cancelled:" + (where if ex["outcome"][i][0] != "refused" else "after-refusal"))
    if any(s.get("same") for s in saves):
        classes.append("with-unchanged-content")
    if any(s["reply"] != "ok" for s in saves):
        classes.append("with-engine-error")
    if any(s["base"] == 0 for s in saves) and any(s["base"] == 1 for s in saves):
        classes.append("with-base-current-and-next")
    reached = {i for i, _ in ex["received"] if isinstance(i, int)}
    classes.append("reached-engine=%d" % len(reached))
    excs = sorted({ex["outcome"][i][1] for i in range(n) if ex["outcome"][i][0] == "refused"})
    for e in excs:
        classes.append("refused:" + e)
    return classes, overlap_same_base


def check_case(case) -> list[Violation]:
    if not _valid(case):
        return []
    return _judge(case, _execute(case))


def run_shard(col, cfg):
    for idx, case in enumerate(enumerate_cases(cfg)):
        if idx % col.nshards != col.shard:
            continue
        if col.expired():
            break
        ex = _execute(case)
        vs = _judge(case, ex)
        classes, nontrivial = _classify(case, ex)
        col.record(case, nontrivial, classes=classes, violations=vs)


def shrink_hints(case):
    """drop one save (events and entry), renumbering the rest"""
    if not _valid(case):
        return
    n = len(case["saves"])
    if case["pre"] > 0:
        yield {"pre": case["pre"] - 1, "saves": case["saves"], "schedule": case["schedule"]}
    for drop in range(n):
        if n <= 1:
            break
        ren = {}
        k = 0
        for i in range(n):
            if i != drop:
                ren[i] = k
                k += 1
        sched = [e[0] + str(ren[int(e[1:])]) for e in case["schedule"] if int(e[1:]) != drop]
        yield {"pre": case["pre"], "saves": [s for i, s in enumerate(case["saves"]) if i != drop], "schedule": sched}
    for i, s in enumerate(case["saves"]):
        if s.get("cancel"):
            saves = [dict(x) for x in case["saves"]]
            del saves[i]["cancel"]
            yield {"pre": case["pre"], "saves": saves, "schedule": [e for e in case["schedule"] if e != "x%d" % i]}
        if s.get("same"):
            saves = [dict(x) for x in case["saves"]]
            del saves[i]["same"]
            yield {"pre": case["pre"], "saves": saves, "schedule": case["schedule"]}
        if s["reply"] != "ok":
            saves = [dict(x) for x in case["saves"]]
            saves[i]["reply"] = "ok"
            yield {"pre": case["pre"], "saves": saves, "schedule": case["schedule"]}
