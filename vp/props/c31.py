"""C31 - method saves use optimistic concurrency without lost updates.

Statement: a method save is accepted only if it was based on the current method version.  Of any set of saves based on
the same version, including concurrent ones, at most one is accepted, and each accepted save increases the version by
exactly one.

Case    : {"pre": p, "saves": [{"base": -1|0|1, "reply": "ok"|"err"|"err_caller"}, ...], "schedule": ["s0","s1","c0",...]}
          p sequential saves, each based on the version the unit reports at that moment, come first (they are judged like
          all others) and leave the method at version v0.  Then save i (user u<i>, its own method text) is posted with
          version v0 + base_i through the REAL route function
          openpectus.aggregator.routers.process_unit.save_method -> FromFrontend.save_method -> AggregatorDispatcher.rpc_call.
          The engine end of the websocket RPC is the FakeEngineChannel of vp.harness.agg_h whose responder PARKS every
          MethodMsg on a future.  Schedule event "s<i>" posts save i, "c<i>" makes the engine's reply to save i available
          (the parked call returns; a call that reaches the engine later is answered at once; a save that was refused before
          it reached the engine is not affected).  After every event the loop runs until nothing moves any more.
Observed: a chronological log with the unit's method version at every engine receipt, every save completion and every
          event boundary.  The version can only change inside a task step that ends in one of those log entries, so each
          change is attributed to exactly one entry.
Oracle  : (1) a save that completes ACCEPTED (the route returned a version) must have base == the version logged
              immediately before its completion                    -> accepted:base-outdated-during-engine-round-trip (base was
              current when the save was posted) | accepted:base-not-current-when-posted
          (2) an accepted save must change the version by exactly +1 and return exactly that version
                                                                   -> version-step:accepted:<delta> | returned-version:<diff>
              (not judged for a save already reported under (1): overwriting a newer version is its consequence)
          (3) every other log entry (engine receipt, refused save, event boundary) must leave the version unchanged
                                                                   -> version-changed:<entry kind>
          (4) among all saves (the p preliminary ones included) with the same base at most one is accepted
                                                                   -> same-base:two-accepted  (only when not every surplus
              accepted save is already reported under (1))
          (1)-(3) together imply  final version == v0 + number of accepted saves ; it is checked as an internal assertion.
Refused : AggregatorCallerException (HTTP 400) / AggregatorInternalException (HTTP 500) raised by the route.  Any other
          exception propagates (harness error).
"""
from __future__ import annotations

import asyncio
import itertools

from vp.core.framework import Violation
from vp.harness.agg_h import AggHarness, HarnessError

ID = "C31"
LEVEL = "exploration"
ENGINE = "aggregator_harness"
DESIGN_REF = "DESIGN.md §3 C31"
TECHNIQUE = ("exhaustive enumeration of post/engine-reply interleavings of 2-3 (thorough: 4) concurrent method saves on the real "
             "route + FromFrontend.save_method + AggregatorDispatcher.rpc_call; the fake engine parks each MethodMsg on a future "
             "the schedule resolves; version log attributed per task step")
RULE = ("All schedules of the events s_i (save i posted) and c_i (engine reply to save i available) with s_i before c_i, up to "
        "renaming of the saves (s_0 < s_1 < ... ; every assignment of bases and replies to the saves is enumerated, so each labelled "
        "ordering is covered by one canonical ordering) x base version in {current-1, current, current+1} per save x engine reply in "
        "{ok, err, err_caller} per save x number of preliminary sequential saves. Non-trivial = at least two saves with the same "
        "base are in flight at the same time (the second is posted before the engine reply to the first is available). Distinct = "
        "distinct (pre, saves, schedule).")
ASSUMPTIONS = [
    "the engine answers a MethodMsg with SuccessMessage or ErrorMessage (caller_error False is what the engine sends; True is allowed by the protocol); transport failures and disconnects during the round trip are not generated",
    "one aggregator process, one asyncio loop: the only suspension point of save_method is the engine round trip, which the schedule controls",
    "'accepted' = the save_method route returns a version; AggregatorCallerException/AggregatorInternalException = refused (HTTP 400/500)",
    "'current version' at acceptance = the version of the unit's method immediately before the task step in which the save completes",
]
TIERS = {
    "quick": {"n_saves": [2, 3], "pre": [0, 1], "replies": ["ok", "err", "err_caller"], "exhaustive": True, "budget_s": 150},
    "thorough": {"n_saves": [2, 3, 4], "pre": [0, 1, 2], "replies": ["ok", "err", "err_caller"], "replies_4": ["ok", "err"],
                 "exhaustive": True, "budget_s": 850},
}
BASES = (-1, 0, 1)
REPLIES = ("ok", "err", "err_caller")
MAX_SAVES = 5
UNIT = "E1"


# ---- schedules ---------------------------------------------------------------------------------------------

def canonical_schedules(n: int):
    """all sequences over s0..s(n-1), c0..c(n-1) with s_i before c_i and s_0 < s_1 < ... (saves are named in posting order)"""
    out = []

    def rec(seq, next_s, open_c):
        if len(seq) == 2 * n:
            out.append(list(seq))
            return
        if next_s < n:
            rec(seq + ["s%d" % next_s], next_s + 1, open_c + [next_s])
        for i in open_c:
            rec(seq + ["c%d" % i], next_s, [k for k in open_c if k != i])
    rec([], 0, [])
    return out


def enumerate_cases(cfg):
    for n in cfg["n_saves"]:
        scheds = canonical_schedules(n)
        for pre in cfg["pre"]:
            for sched in scheds:
                for bases in itertools.product(BASES, repeat=n):
                    for replies in itertools.product(cfg.get("replies_%d" % n, cfg["replies"]), repeat=n):
                        yield {"pre": pre, "saves": [{"base": b, "reply": r} for b, r in zip(bases, replies)], "schedule": sched}


# ---- domain guard ------------------------------------------------------------------------------------------

def _valid(case) -> bool:
    if not isinstance(case, dict):
        return False
    pre, saves, sched = case.get("pre"), case.get("saves"), case.get("schedule")
    if not isinstance(pre, int) or isinstance(pre, bool) or not 0 <= pre <= 3:
        return False
    if not isinstance(saves, list) or not 1 <= len(saves) <= MAX_SAVES:
        return False
    for s in saves:
        if not isinstance(s, dict) or s.get("base") not in BASES or isinstance(s.get("base"), bool) or s.get("reply") not in REPLIES:
            return False
    if not isinstance(sched, list) or not all(isinstance(e, str) for e in sched):
        return False
    n = len(saves)
    want = sorted(["s%d" % i for i in range(n)] + ["c%d" % i for i in range(n)])
    if sorted(sched) != want:
        return False
    for i in range(n):
        if sched.index("s%d" % i) > sched.index("c%d" % i):
            return False
    return True


# ---- execution ---------------------------------------------------------------------------------------------

def _method_dto(Dto, version: int, tag: str):
    return Dto.Method(lines=[Dto.MethodLine(id="id_1", content="Mark: " + tag), Dto.MethodLine(id="id_2", content="")],
                      version=version, last_author="")


def _execute(case):
    """-> dict(v0, log=[(kind, i, version)], outcome={i: ("accepted", returned) | ("refused", excname)}, received=[...])"""
    import openpectus.aggregator.routers.dto as Dto
    import openpectus.protocol.aggregator_messages as AM
    from openpectus.aggregator.exceptions import AggregatorCallerException, AggregatorInternalException
    from openpectus.aggregator.routers import process_unit

    saves, sched, pre = case["saves"], case["schedule"], case["pre"]
    n = len(saves)
    with AggHarness() as h:
        h.register(UNIT)
        if not h.connect(UNIT):
            raise HarnessError("engine could not connect")
        h.send(UNIT, h.uod_info_msg(["A"], 1.0))
        unit_id = h.engine_id(UNIT)
        agg = h.aggregator
        ch = h.engine_channel(UNIT)

        def version() -> int:
            ed = agg.get_registered_engine_data(unit_id)
            if ed is None:
                raise HarnessError("engine data vanished")
            return ed.method.version

        log: list = []
        outcome: dict = {}
        parked: dict = {}        # save index -> future the engine call waits on
        reply_ready: set = set()
        received: list = []      # (save index | "p<k>", method version sent to the engine)
        bases_abs: dict = {}     # save index | "p<k>" -> base version it was posted with
        who = {"Mark: s%d" % i: i for i in range(n)}
        who.update({"Mark: pre%d" % k: "p%d" % k for k in range(pre)})

        def reply_for(i):
            kind = saves[i]["reply"]
            if kind == "ok":
                return AM.SuccessMessage()
            return AM.ErrorMessage(message="Failed to set method", exception_message="generated", caller_error=(kind == "err_caller"))

        async def responder(msg):
            if not isinstance(msg, AM.MethodMsg):
                raise HarnessError("unexpected rpc %r" % type(msg).__name__)
            i = who[msg.method.lines[0].content]
            received.append((i, msg.method.version))
            log.append(("engine-receive", i, version()))
            if isinstance(i, str):              # a preliminary save: answered at once
                return AM.SuccessMessage()
            if i not in reply_ready:
                fut = asyncio.get_running_loop().create_future()
                parked[i] = fut
                await fut
                del parked[i]
            return reply_for(i)
        ch.responder = responder

        async def post(i, base_version, tag, user):
            bases_abs[i] = base_version
            try:
                res = await process_unit.save_method(user_name=user, user_id="id-" + user, user_roles=set(), unit_id=unit_id,
                                                     method_dto=_method_dto(Dto, base_version, tag), agg=agg)
            except (AggregatorCallerException, AggregatorInternalException) as ex:
                outcome[i] = ("refused", type(ex).__name__)
                log.append(("complete-refused", i, version()))
                return
            outcome[i] = ("accepted", res.version)
            log.append(("complete-accepted", i, version()))

        async def drain():
            # every step a save can take is one task step; 12 turns of the loop are far more than any chain needs and a task
            # blocked on something else (e.g. a lock held by a parked save) simply stays blocked
            for _ in range(12):
                await asyncio.sleep(0)

        async def scenario():
            log.append(("boundary", None, version()))
            for k in range(pre):
                # a sequential save based on the version a client reads now; judged like every other save
                await post("p%d" % k, version(), "pre%d" % k, "p%d" % k)
                log.append(("boundary", None, version()))
            v0 = version()
            tasks = []
            for ev in sched:
                i = int(ev[1:])
                if ev[0] == "s":
                    tasks.append(asyncio.ensure_future(post(i, v0 + saves[i]["base"], "s%d" % i, "u%d" % i)))
                else:
                    reply_ready.add(i)
                    if i in parked and not parked[i].done():
                        parked[i].set_result(None)
                await drain()
                log.append(("boundary", None, version()))
            for _ in range(50):
                if all(t.done() for t in tasks):
                    break
                await drain()
            if not all(t.done() for t in tasks):
                raise HarnessError("a save never completed although every engine reply is available")
            for t in tasks:
                t.result()          # re-raise anything unexpected
            log.append(("boundary", None, version()))
            return v0

        v0 = h.run(scenario())
        return {"v0": v0, "log": log, "outcome": outcome, "received": received, "final": log[-1][2], "bases": bases_abs}


# ---- oracle ------------------------------------------------------------------------------------------------

def _judge(case, ex):
    out: list[Violation] = []
    saves = case["saves"]
    n = len(saves)
    v0, log, outcome, bases = ex["v0"], ex["log"], ex["outcome"], ex["bases"]
    pre = case["pre"]
    posted_at: dict = {}     # save -> version current when it was posted = version at the boundary before its s event
    # boundaries: one before the first preliminary save, one after each of them, then one after every schedule event
    boundaries = [e[2] for e in log if e[0] == "boundary"]
    for k in range(pre):
        posted_at["p%d" % k] = boundaries[k]
    for pos, ev in enumerate(case["schedule"]):
        if ev[0] == "s":
            posted_at[int(ev[1:])] = boundaries[pre + pos]
    primary: set = set()
    prev = log[0][2]
    accepted_steps = 0
    for kind, i, v in log[1:]:
        delta = v - prev
        if kind == "complete-accepted":
            accepted_steps += 1
            base = bases[i]
            returned = outcome[i][1]
            if base != prev:
                primary.add(i)
                if posted_at.get(i) == base:
                    out.append(Violation("accepted:base-outdated-during-engine-round-trip",
                                         "save %r (base version %d, current when it was posted) was accepted although the method had "
                                         "reached version %d before its engine round trip ended; it returned version %d and the unit's "
                                         "method version is now %d (the version-%d method of the other save is overwritten)"
                                         % (i, base, prev, returned, v, prev), case))
                else:
                    out.append(Violation("accepted:base-not-current-when-posted",
                                         "save %r with base version %d was accepted; the current version was %r when it was posted and %d "
                                         "when it was accepted (returned %d, version now %d)"
                                         % (i, base, posted_at.get(i), prev, returned, v), case))
            else:
                if delta != 1:
                    out.append(Violation("version-step:accepted:%+d" % delta,
                                         "accepted save %r changed the method version from %d to %d (must be exactly +1)" % (i, prev, v), case))
                if returned != prev + 1:
                    out.append(Violation("returned-version:%+d" % (returned - (prev + 1)),
                                         "accepted save %r returned version %d, the version before it was %d" % (i, returned, prev), case))
        elif delta != 0:
            label = {"engine-receive": "before-engine-reply", "complete-refused": "by-refused-save", "boundary": "outside-save"}[kind]
            why = ""
            if kind == "complete-refused":
                why = " (refused with %s, engine reply %r)" % (outcome[i][1], saves[i]["reply"] if isinstance(i, int) else "ok")
            out.append(Violation("version-changed:" + label,
                                 "the method version went from %d to %d at log entry %s of save %r%s - no save was accepted in that step"
                                 % (prev, v, kind, i, why), case))
        prev = v
    # same base, the preliminary (sequential) saves included
    by_base: dict = {}
    for i in ["p%d" % k for k in range(pre)] + list(range(n)):
        if outcome[i][0] == "accepted":
            by_base.setdefault(bases[i], []).append(i)
    for base in sorted(by_base):
        acc = by_base[base]
        if len(acc) > 1:
            surplus = [a for a in acc if a not in primary]
            if len(surplus) > 1:
                out.append(Violation("same-base:two-accepted",
                                     "saves %r were all based on version %d and all accepted" % (acc, base), case))
    # internal consistency: sum of attributed steps == final - initial
    if not out and ex["final"] != log[0][2] + accepted_steps:
        raise HarnessError("version bookkeeping inconsistent: initial=%d accepted=%d final=%d" % (log[0][2], accepted_steps, ex["final"]))
    return out


def _classify(case, ex):
    saves, sched = case["saves"], case["schedule"]
    n = len(saves)
    classes = ["saves=%d" % n, "pre=%d" % case["pre"]]
    pos = {e: k for k, e in enumerate(sched)}
    overlap_same_base = False
    any_overlap = False
    for i in range(n):
        for j in range(i + 1, n):
            if pos["s%d" % j] < pos["c%d" % i] and pos["s%d" % i] < pos["c%d" % j]:
                any_overlap = True
                if saves[i]["base"] == saves[j]["base"]:
                    overlap_same_base = True
    if any_overlap:
        classes.append("overlap")
    if overlap_same_base:
        classes.append("overlap:same-base")
    if all(pos["c%d" % i] < pos["s%d" % (i + 1)] for i in range(n - 1)):
        classes.append("sequential")
    acc = sum(1 for i in range(n) if ex["outcome"][i][0] == "accepted")
    classes.append("accepted=%d" % acc)
    if any(s["reply"] != "ok" for s in saves):
        classes.append("with-engine-error")
    if any(s["base"] == 0 for s in saves) and any(s["base"] == 1 for s in saves):
        classes.append("with-base-current-and-next")
    reached = {i for i, _ in ex["received"] if isinstance(i, int)}
    classes.append("reached-engine=%d" % len(reached))
    excs = sorted({ex["outcome"][i][1] for i in range(n) if ex["outcome"][i][0] == "refused"})
    for e in excs:
        classes.append("refused:" + e)
    return classes, overlap_same_base


def check_case(case) -> list[Violation]:
    if not _valid(case):
        return []
    return _judge(case, _execute(case))


def run_shard(col, cfg):
    for idx, case in enumerate(enumerate_cases(cfg)):
        if idx % col.nshards != col.shard:
            continue
        if col.expired():
            break
        ex = _execute(case)
        vs = _judge(case, ex)
        classes, nontrivial = _classify(case, ex)
        col.record(case, nontrivial, classes=classes, violations=vs)


def shrink_hints(case):
    """drop one save (events and entry), renumbering the rest"""
    if not _valid(case):
        return
    n = len(case["saves"])
    if case["pre"] > 0:
        yield {"pre": case["pre"] - 1, "saves": case["saves"], "schedule": case["schedule"]}
    for drop in range(n):
        if n <= 1:
            break
        ren = {}
        k = 0
        for i in range(n):
            if i != drop:
                ren[i] = k
                k += 1
        sched = [e[0] + str(ren[int(e[1:])]) for e in case["schedule"] if int(e[1:]) != drop]
        yield {"pre": case["pre"], "saves": [s for i, s in enumerate(case["saves"]) if i != drop], "schedule": sched}
    for i, s in enumerate(case["saves"]):
        if s["reply"] != "ok":
            saves = [dict(x) for x in case["saves"]]
            saves[i]["reply"] = "ok"
            yield {"pre": case["pre"], "saves": saves, "schedule": case["schedule"]}
