"""C36 — every changed tag is reported with its latest value.

Domain : generated methods (blocks, Simulate / Simulate off, marks, counters, Base, output commands, waits, watches, timed
         Pause/Hold, Restart) x input trajectories (In1/In2/Temp/Tot) x schedules of user control commands and ticks; the
         reports are built by the real EngineMessageBuilder after generated numbers of ticks (0-20; in 1 case of 8 one gap
         of 220-650 ticks, so that a tag that changed once early in the gap lies behind > 1000 newer queue entries): mostly
         create_tag_updates_msg, sometimes create_tag_updates_snapshot_msg; the first message is the snapshot that
         EngineRunner posts when it enters steady state.
Oracle : the harness keeps, per tag, the value the reports told so far.  At each report it reads the value of every engine
         tag from the tag object (Tag.get_value(), the accessor the interpreter reads; the stored value for Block Time and
         Scope Time whose get_value() is derived state) and requires
           unreported:<tag>        a tag whose current value differs from the last reported one is in the report
           stale:<tag>             every reported tag carries the current value
           dup                     no tag name occurs twice in one report
           snapshot-missing:<tag>  a snapshot carries every tag of the engine
         A tag that changed and changed back between two reports need not appear (weaker, sound reading; counted).
         A change of the simulated flag alone (same value) is not a change of value: counted, not judged.
         <tag> is "failed Simulate" for a tag left simulated with value None by a Simulate that raised.
"""
from __future__ import annotations

from vp.core.framework import Violation, hyp_run, shard_seed
from vp.harness import pcode_gen as G
from vp.harness import tagrep_h as R

ID = "C36"
LEVEL = "exploration"
ENGINE = "engine_harness"
TECHNIQUE = ("Hypothesis-generated methods x input trajectories x control/report schedules; the real tags-updated and snapshot "
             "messages compared with a shadow of the last reported value of every tag")
RULE = ("Hypothesis draws a method (<=10 top-level nodes, depth<=3; thorough <=14, depth<=4, thresholds) rich in blocks, "
        "Simulate/Simulate off, marks, counters and output commands, an input trajectory and 8-30 phases (thorough 12-50) of "
        "0-20 ticks each followed by a report (1 in 8 a snapshot), 1 phase in 8 preceded by a user control command; 1 case in 8 "
        "has one gap of 220-650 ticks among its first four phases (method still executing) between two incremental reports. "
        "Non-trivial = >=3 reports were taken with a method block active in at least one tick since the previous report. "
        "Distinct = distinct (method, trajectory, schedule).")
ASSUMPTIONS = [
    "reports are taken between ticks (the harness is single threaded); all tag changes happen inside ticks",
    "'value' is Tag.get_value() (for Block Time / Scope Time, whose get_value() is derived state, the stored value that "
    "as_readonly() carries); the simulated flag alone is not a value",
    "a tag that changed and reverted between two reports is not required to appear",
    "the shadow starts from the first snapshot (EngineRunner always posts one before the first update message)",
    "archiver disabled",
]
TIERS = {
    "quick": {"examples": 4000, "budget_s": 100, "deep": False},
    "thorough": {"examples": 100000, "budget_s": 1500, "deep": True},
}

CHUNK = 1000
LONG_GAP_EVERY = 8     # 1 case in 8 has a gap of 220-650 ticks between two incremental reports
LONG_GAP_MIN = 200
GAPS = [0, 1, 1, 2, 3, 4, 5, 6, 8, 10, 13, 16, 20]
INCS = [0.1] * 10 + [0.5, 1.0]


def _strategy(deep: bool):
    if deep:
        return R.cases(R.CFG_TAGS_DEEP, GAPS, INCS, phases=(12, 50), snapshot_every=8, traj_changes=12, user_every=8,
                       long_gap_every=LONG_GAP_EVERY)
    return R.cases(R.CFG_TAGS, GAPS, INCS, phases=(8, 30), snapshot_every=8, traj_changes=8, user_every=8,
                   long_gap_every=LONG_GAP_EVERY)


def _same(a, b) -> bool:
    """value equality as the tag classes use it (==), with a guard for values of different kinds"""
    if a is None or b is None:
        return a is None and b is None
    if isinstance(a, str) != isinstance(b, str):
        return False
    return a == b


def oracle(case, tr) -> tuple[list[Violation], dict]:
    out: list[Violation] = []
    info = {"reports": 0, "snapshots": 0, "empty_reports": 0, "reports_with_block": 0, "changed_tags": 0,
            "reverted_unreported": 0, "simflag_only_change": 0, "simflag_only_change_unreported": 0,
            "reported_unchanged": 0, "ticks": len(tr.ticks), "raised": sum(1 for t in tr.ticks if t.raised is not None),
            "sim_changed": 0, "multi_change_between_reports": 0, "readonly_differs_from_get_value": 0, "reported_simflag_differs": 0, "last_change_200_ticks_before_report": 0,
            "long_gap_reports": 0}

    def viol(sig, msg):
        if not any(v.sig == sig for v in out):
            out.append(Violation(sig, msg, case))

    def label(name, cur):
        return "failed Simulate" if (cur[1] and cur[3] is None) else name

    shadow: dict = {}        # name -> (value, simulated) as last told by a report
    have_snapshot = False
    prev_after = -1
    for ri, r in enumerate(tr.reports):
        names = [t[0] for t in r.tags]
        where = "report #%d (%s) after tick %d" % (ri, r.kind, r.after)
        seen = set()
        for n in names:
            if n in seen:
                viol("dup", "%s carries tag %r more than once: %r" % (where, n, names))
            seen.add(n)
        rep = {}
        for (name, val, _s, sim) in r.tags:
            rep[name] = (val, bool(sim))
        # ticks since the previous report
        span = tr.ticks[prev_after + 1:r.after + 1]
        if r.kind == "snapshot":
            info["snapshots"] += 1
            for name in tr.tag_names:
                if name not in rep:
                    viol("snapshot-missing:%s" % name, "%s: the snapshot does not carry tag %r (carried: %r)" % (where, name, names))
        else:
            info["reports"] += 1
            if r.is_none:
                info["empty_reports"] += 1
            if any(t.block not in (None, "") for t in span):
                info["reports_with_block"] += 1
            if len(span) >= LONG_GAP_MIN:
                info["long_gap_reports"] += 1
        for name, cur in r.current.items():
            cv, cs = cur[3], cur[1]       # effective value (Tag.get_value()), see tagrep_h._observe
            if not _same(cur[0], cur[3]):
                info["readonly_differs_from_get_value"] += 1
            if name in rep:
                rv, rs = rep[name]
                if rs != cs:
                    info["reported_simflag_differs"] += 1      # not a value: counted only
                if not _same(rv, cv):
                    viol("stale:%s" % label(name, cur), "%s: %s is reported as value=%r simulated=%r but the tag holds value=%r "
                         "simulated=%r" % (where, name, rv, rs, cv, cs))
            if have_snapshot and name in shadow:
                sv, ss = shadow[name]
                changed = not _same(sv, cv)
                if changed:
                    info["changed_tags"] += 1
                    if len(span) >= LONG_GAP_MIN and r.kind != "snapshot":
                        # ticks of this gap after the last change of the tag
                        quiet = 0
                        for t in reversed(span):
                            if name in t.obs and _same(t.obs[name][3], cv):
                                quiet += 1
                            else:
                                break
                        if quiet >= LONG_GAP_MIN:
                            info["last_change_200_ticks_before_report"] += 1
                    if cs or ss:
                        info["sim_changed"] += 1
                    if name not in rep:
                        viol("unreported:%s" % label(name, cur), "%s: %s was last reported as %r and now holds %r (simulated=%r), "
                             "but the report does not carry it (carried: %r)" % (where, name, sv, cv, cs, names))
                elif ss != cs:
                    info["simflag_only_change"] += 1
                    if name not in rep:
                        info["simflag_only_change_unreported"] += 1
                else:
                    vals = [t.obs[name][3] for t in span if name in t.obs]
                    if any(not _same(v, cv) for v in vals):
                        if name not in rep:
                            info["reverted_unreported"] += 1
                    elif name in rep and r.kind != "snapshot":
                        info["reported_unchanged"] += 1
                if changed and len({repr(t.obs[name][3]) for t in span if name in t.obs}) > 1:
                    info["multi_change_between_reports"] += 1
        for name, v in rep.items():
            shadow[name] = v
        if r.kind == "snapshot":
            have_snapshot = True
        prev_after = r.after
    return out, info


def check_case(case):
    if not R.valid(case):
        return []
    return oracle(case, R.run_trace(case))[0]


def shrink_hints(case):
    return R.shrink_hints(case)


def run_shard(col, cfg):
    def body(case):
        tr = R.run_trace(case)
        vs, info = oracle(case, tr)
        nontrivial = info["reports_with_block"] >= 3
        classes = [k for k in ("empty_reports", "reverted_unreported", "simflag_only_change", "simflag_only_change_unreported",
                               "reported_unchanged", "raised", "sim_changed", "multi_change_between_reports",
                               "readonly_differs_from_get_value", "reported_simflag_differs", "long_gap_reports",
                               "last_change_200_ticks_before_report") if info[k]]
        if info["snapshots"] > 1:
            classes.append("later-snapshot")
        if any(len(p["ticks"]) == 0 for p in case["phases"]):
            classes.append("back-to-back-reports")
        if any(len(p["ticks"]) >= 10 for p in case["phases"]):
            classes.append("gap>=10")
        kinds = G.count_kinds(case["tree"])
        if kinds.get("_depth", 0) >= 2:
            classes.append("nested")
        states = {t.state for t in tr.ticks}
        for s in ("Paused", "Holding", "Restarting", "Stopped"):
            if s in states:
                classes.append("state:" + s)
        if R.foreign_unit_simulates(case["tree"]):
            classes.append("simulate-with-foreign-unit")
        if any(e[1] == "method_error" for t in tr.ticks for e in t.events):
            classes.append("method-error")
        col.count("changed_tags_judged", info["changed_tags"])
        col.count("ticks_total", info["ticks"])
        col.record(case, nontrivial, classes=classes, violations=vs,
                   sample={"method": tr.lines, "traj": case["traj"],
                           "phases": [[p["user"], len(p["ticks"]), p["rep"]] for p in case["phases"][:16]]})
    # chunks of <= CHUNK examples, so that a shard stops generating soon after the budget has run out (one chunk = the
    # whole share of a shard in the quick tier)
    total = max(1, cfg["examples"] // col.nshards)
    done = 0
    while done < total and not col.expired():
        n = min(CHUNK, total - done)
        hyp_run(_strategy(bool(cfg.get("deep"))), body, n, shard_seed(col.seed, col.shard) + 100000 * (done // CHUNK), col)
        done += n
