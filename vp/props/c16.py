"""C16 — reported tag times are the engine time of the change.

Domain : generated methods (blocks, Simulate / Simulate off, marks, counters, Base, output commands, waits, watches, timed
         Pause/Hold, Stop/Restart) x input trajectories (In1/In2/Temp/Tot) x schedules of ticks with increments
         0.05/0.1/0.5/1 s and user control commands.  The tag-update stream is taken with the real EngineMessageBuilder
         (create_tag_updates_msg; a snapshot first and now and then) after (almost) every tick.
Oracle : the harness reads the readonly value of every tag directly from the tag objects after every tick, so it knows the
         last tick c in which the *reported* value of a tag changed (a flip of the simulated flag alone is not a change).  For every tag carried by a report taken after tick k,
         with stamp s = TagValue.tick_time:
           engine start t0 <= s <= time(k)                                     (before_start / future)
           c exists  =>  s >= time(c)   [c == k  =>  s == time(k)]             (stale)
           s is t0 or the time of one of the ticks so far                      (not_a_tick_time)
           per tag s never decreases from one report to the next               (decrease)
         A stamp that is a small integer <= the engine's tick counter is named tick_number (tick NUMBER used as time).
         Virtual time is identical for the tick time and time.time(), so code stamping with the wall clock passes.
Signatures: stamp:<kind>:<defect>; kind names the writer of the stamp: "Simulate" (the stamp appeared in a tick that left the
         tag simulated), "failed Simulate" (tag reported as simulated with value None: a Simulate that raised), else the tag
         name; plus stamp:Simulate off:stale (the reported value changed by leaving simulation, the stamp is older).  A wrong
         stamp that is carried again unchanged is reported once.  One signature per reported tag and report (most specific first).
"""
from __future__ import annotations

from vp.core.framework import Violation, hyp_run, shard_seed
from vp.harness import pcode_gen as G
from vp.harness import tagrep_h as R

ID = "C16"
LEVEL = "exploration"
ENGINE = "engine_harness"
TECHNIQUE = ("Hypothesis-generated methods x input trajectories x tick/control schedules; every TagValue of the real "
             "tags-updated messages compared with the harness' per-tick observation of the tag objects and the tick times")
RULE = ("Hypothesis draws a method (<=10 top-level nodes, depth<=3; thorough <=14, depth<=4, thresholds) rich in blocks, "
        "Simulate/Simulate off, marks, counters and output commands, an input trajectory and 20-90 phases (thorough 30-140) "
        "of 1-5 ticks (increments 0.05/0.1/0.5/1 s, mostly one tick) each followed by a tag-update report (1 in 12 a snapshot), "
        "1 phase in 12 preceded by a user control command. Non-trivial = the run started and ended >=1 method block AND "
        ">=1 report carried a simulated tag. Distinct = distinct (method, trajectory, schedule).")
ASSUMPTIONS = [
    "engine start = the virtual time at which the UOD and Engine are constructed and engine.run() is called (t0)",
    "all tag changes happen inside ticks (user control commands only schedule; no live edits or injections are generated)",
    "only tags whose reported value changed are held to the tick of the change; a stamp newer than the last "
    "visible change (hidden real value of a simulated tag set again) is accepted and counted, not judged",
    "leaving simulation changes the reported value in that tick, so the reported stamp must not be older than that tick",
    "archiver disabled (its Mark reset is covered by the archive property)",
]
TIERS = {
    "quick": {"examples": 3200, "budget_s": 100, "deep": False},
    "thorough": {"examples": 120000, "budget_s": 1500, "deep": True},
}
EPS = 1e-6

CHUNK = 1000
GAPS = [1] * 8 + [2, 3, 5]
INCS = [0.1] * 8 + [0.05, 0.5, 1.0]


def _strategy(deep: bool):
    if deep:
        return R.cases(R.CFG_TAGS_DEEP, GAPS, INCS, phases=(30, 140), snapshot_every=12, traj_changes=10)
    return R.cases(R.CFG_TAGS, GAPS, INCS, phases=(20, 90), snapshot_every=12, traj_changes=8)


def oracle(case, tr) -> tuple[list[Violation], dict]:
    out: list[Violation] = []
    info = {"block_start": 0, "block_end": 0, "sim_reported": 0, "simoff_reported": 0, "judged_changed": 0,
            "restamped_without_visible_change": 0, "reports": len(tr.reports), "ticks": len(tr.ticks), "raised": 0,
            "stopped": 0, "restarted": 0, "paused": 0, "held": 0, "simflag_only_change": 0, "bad_stamp_carried_again": 0}

    def viol(sig, msg):
        if not any(v.sig == sig for v in out):
            out.append(Violation(sig, msg, case))

    # last tick index in which the reported value of a tag changed, and whether that change left simulation
    last_change: dict = {}
    left_sim: dict = {}
    prev = tr.initial
    origin: dict = {}         # (tag name, stamp) -> tag was simulated at the end of the tick that wrote the stamp
    change_at: list = []      # (tick index, tag name, change left simulation) in tick order
    for i, t in enumerate(tr.ticks):
        for name, o in t.obs.items():
            val, sim = o[0], o[1]
            pv = prev.get(name)
            if pv is None:
                continue
            if o[2] != pv[2]:
                origin[(name, o[2])] = sim            # this stamp was written in tick i; was the tag simulated then?
            if pv[0] != val:
                change_at.append((i, name, pv[1] and not sim))
            elif pv[1] != sim:
                info["simflag_only_change"] += 1      # same value, only the simulated flag flipped: not a change of value
        prev = t.obs
        for e in t.events:
            if e[1] == "block_start" and e[2] != "root":
                info["block_start"] += 1
            elif e[1] == "block_end" and e[2] != "root":
                info["block_end"] += 1
            elif e[1] == "stop":
                info["stopped"] += 1
        if t.state == "Paused":
            info["paused"] += 1
        elif t.state == "Holding":
            info["held"] += 1
        elif t.state == "Restarting":
            info["restarted"] += 1
        if t.raised is not None:
            info["raised"] += 1
    tick_times = [t.time for t in tr.ticks]
    ci = 0
    last_stamp: dict = {}
    flagged: dict = {}        # name -> stamp already reported as wrong
    for ri, r in enumerate(tr.reports):
        k = r.after
        while ci < len(change_at) and change_at[ci][0] <= k:
            i, name, off = change_at[ci]
            last_change[name] = i
            left_sim[name] = off
            ci += 1
        now = tick_times[k] if k >= 0 else tr.t0
        tick_number = tr.ticks[k].engine_tick_number if k >= 0 else -1
        for (name, val, s, sim) in r.tags:
            c = last_change.get(name)
            off = bool(left_sim.get(name)) and not sim
            # a Simulate that failed (unit conversion error -> method error) leaves the tag simulated with value None
            # kind names the writer of the stamp: a simulation (the stamp appeared in a tick that left the tag simulated) or
            # the ordinary setter of that tag
            by_sim = origin.get((name, s), sim)
            kind = "failed Simulate" if (sim and val is None) else ("Simulate" if by_sim else name)
            if sim:
                info["sim_reported"] += 1
            if off:
                info["simoff_reported"] += 1
            where = "report #%d (%s) after tick %d (time t0+%.3f): %s=%r simulated=%r tick_time=%r (t0+%.3f)" % (
                ri, r.kind, k, now - tr.t0, name, val, sim, s, s - tr.t0)
            if c is not None:
                info["judged_changed"] += 1
            sane = False
            sig = msg = None
            if c is not None and off and s < tick_times[c] - EPS:
                sig, msg = "stamp:Simulate off:stale", ("%s; the tag left simulation in tick %d (t0+%.3f) and its reported "
                                                        "value changed then, but the stamp is older" % (where, c, tick_times[c] - tr.t0))
            elif name in flagged and flagged[name] == s:
                # the very stamp already reported for this tag is carried again (nothing restamped it): one defect, one report
                info["bad_stamp_carried_again"] += 1
            elif s < tr.t0 - EPS and float(s).is_integer() and 0 <= s <= tick_number:
                sig, msg = "stamp:%s:tick_number" % kind, ("%s; the stamp is a tick number (engine tick counter is %d), not a time"
                                                           % (where, tick_number))
            elif s < tr.t0 - EPS:
                sig, msg = "stamp:%s:before_start" % kind, "%s; the stamp lies before engine start" % where
            elif s > now + EPS:
                sig, msg = "stamp:%s:future" % kind, "%s; the stamp lies after the current tick" % where
            elif c is not None and s < tick_times[c] - EPS:
                sig, msg = "stamp:%s:stale" % kind, ("%s; the reported value last changed in tick %d (t0+%.3f), the stamp is older"
                                                     % (where, c, tick_times[c] - tr.t0))
            elif abs(s - tr.t0) > EPS and not any(abs(s - tt) <= EPS for tt in tick_times[(c or 0):k + 1]):
                sig, msg = "stamp:%s:not_a_tick_time" % kind, ("%s; the stamp is neither engine start nor the time of a tick since "
                                                               "the last change" % where)
            else:
                sane = True
                if c is not None and c < k and s > tick_times[c] + EPS:
                    info["restamped_without_visible_change"] += 1
            if sig is not None:
                flagged[name] = s
                viol(sig, msg)
            if sane:
                ls = last_stamp.get(name)
                if ls is not None and s < ls - EPS:
                    viol("stamp:%s:decrease" % kind, "%s; an earlier report carried tick_time t0+%.3f for this tag"
                         % (where, ls - tr.t0))
                last_stamp[name] = s
    return out, info


def check_case(case):
    if not R.valid(case):
        return []
    return oracle(case, R.run_trace(case))[0]


def shrink_hints(case):
    return R.shrink_hints(case)


def run_shard(col, cfg):
    def body(case):
        tr = R.run_trace(case)
        vs, info = oracle(case, tr)
        nontrivial = info["block_start"] > 0 and info["block_end"] > 0 and info["sim_reported"] > 0
        classes = [k for k in ("block_start", "sim_reported", "simoff_reported", "restamped_without_visible_change", "raised",
                               "simflag_only_change",
                               "stopped", "restarted", "paused", "held") if info[k]]
        kinds = G.count_kinds(case["tree"])
        if kinds.get("_depth", 0) >= 2:
            classes.append("nested")
        if any(len(p["ticks"]) > 1 for p in case["phases"]):
            classes.append("report-gap>1")
        if any(r.kind == "snapshot" for r in tr.reports[1:]):
            classes.append("later-snapshot")
        if R.foreign_unit_simulates(case["tree"]):
            classes.append("simulate-with-foreign-unit")
        if any(e[1] == "method_error" for t in tr.ticks for e in t.events):
            classes.append("method-error")
        col.count("reported_tags_judged_changed", info["judged_changed"])
        col.count("ticks_total", info["ticks"])
        col.record(case, nontrivial, classes=classes, violations=vs,
                   sample={"method": tr.lines, "traj": case["traj"],
                           "phases": [[p["user"], p["ticks"], p["rep"]] for p in case["phases"][:12]]})
    # chunks of <= CHUNK examples, so that a shard stops generating soon after the budget has run out (one chunk = the
    # whole share of a shard in the quick tier)
    total = max(1, cfg["examples"] // col.nshards)
    done = 0
    while done < total and not col.expired():
        n = min(CHUNK, total - done)
        hyp_run(_strategy(bool(cfg.get("deep"))), body, n, shard_seed(col.seed, col.shard) + 100000 * (done // CHUNK), col)
        done += n
