"""C03 - thresholds and Wait durations are honoured.

Domain : generated main-thread programs (Mark / UOD commands / Wait / Base / nested Blocks with End block(s), blank and
         comment lines) with thresholds on any instruction line, `Base` changes between s, min, h, L and mL (also no
         initial Base: the default is min), Wait arguments 0, below one tick, multiples and non-multiples of the tick in
         s/min/h; tick interval fixed 0.1 s, tick times epoch-sized or starting at 0; user Pause/Unpause/Hold/Unhold
         between ticks; a generated monotone totaliser (Accumulated Volume / Block Volume for Base L, mL).
         Block names are free text: two thirds come from a pool of three names, so same-named blocks follow and nest in each
         other; shadow clocks are kept per Block *line* (instance), the listener's events being matched to lines in order.
         Watches (bodies of Mark/Quick/Wait without thresholds, blocks, Base, End block) run beside the main thread; they do
         not change the lexical scope of any main-thread line.
         Instructions that execute more than once: one macro (body: Mark/Quick/Wait, thresholds allowed) called any number of
         times from main-thread lines, also inside Blocks and with Base changes between the calls; Alarms (body: Mark/Quick/
         Wait without thresholds) that fire repeatedly.  Thresholds are generated on main-thread lines and in macro bodies.
"start": first tick at which engine.method_manager.get_method_state() lists the line as started / executed / failed.
Oracle :
  shadow clocks   per scope (Block: from the tick of the listener's block_start event; otherwise the Program scope from its
                  scope_activate event) the number of ticks that began Running (upper shadow) / began and ended Running
                  (lower shadow), times exactly 1/10 s - built from listener events and the observed System State, never from
                  the clock tags.  Volume: totaliser input fed by the case minus its value at the tick the scope began.
  never early     at the tick a thresholded line starts, upper shadow of its lexical scope >= T (T converted with the exact
                  factors 1/60/3600, 1/1000)                                                    -> early:<unit>
                  (early:block-start-tick:<time|volume> when the line starts in the very tick its Block began)
  never late      metamorphic twin: the same case with only that threshold written as 0 gives the tick n0 at which the line
                  starts once its predecessor is done; required start <= first interpreter tick n >= n0 whose lower shadow
                  has reached T                                                                 -> late:<unit>:<nesting>
                  (late:interrupt-scope-shadows-program-scope when a program-scope line is released exactly when the scope
                  of a Watch activated meanwhile - not the program scope - has run T)
                  (late:float-boundary when only the *exact* shadow has reached T while a clock that adds the float 0.1
                  per tick - the arithmetic of any float clock - has not: the root cause is rounding, not the comparison)
  macro body      per execution of a thresholded macro line: never early against the clock of the calling line's scope
                  (Block Time/Volume of the Block around the Call macro, program Scope Time / Accumulated Volume
                  otherwise) in the Base unit in force at that execution        -> early:<unit>:macro-body (1st execution)
                                                                                   early:<unit>:repeated-execution (later)
                  (never-late is not judged there: which clock a macro body has is open, and every candidate is younger)
  Wait            per execution of the Wait (main thread once; macro bodies per call; Alarm bodies per firing):
                  successor starts >= d s after the Wait was reported started (engine time)     -> wait-early
                  successor begins executing >= d s after the Wait began executing              -> wait-early:from-execution-start
                  (wait-early:repeated-execution / wait-late:repeated-execution for the 2nd.. execution of a Wait line)
                  and, when no pause/hold intervened and the successor is the next line and has no threshold,
                  <= d + one tick after the tick the Wait began executing                       -> wait-late
"""
from __future__ import annotations

from fractions import Fraction

from vp.core.framework import Violation, hyp_run, shard_seed
from vp.harness import c03_h as H

ID = "C03"
LEVEL = "exploration"
ENGINE = "engine_harness"
TECHNIQUE = ("Hypothesis-generated programs x pause/hold schedules x totaliser trajectories; shadow clocks from listener events "
             "(never early) and one metamorphic twin run per thresholded line with that threshold zeroed (never late)")
RULE = ("Hypothesis draws a program (<=2 block levels quick / 3 thorough, Watches beside the main thread) with thresholds in the "
        "Base unit in force (s/min/h/L/mL) on main-thread lines, Wait lines, 0-4 user Pause/Hold windows, a piecewise-constant "
        "totaliser flow and the tick at which Watch/Alarm conditions become true; 40% of the cases add 1-2 directed Pause/Hold "
        "requests at offsets -2..+2 around the tick a Wait line is entered, released 3-15 ticks later; 40% of the programs define a macro with Waits and "
        "thresholded lines and call it repeatedly (half of them: call, Base change, call again, the second call in a fresh "
        "Block half the time); Alarms re-fire. Non-trivial = at least "
        "one threshold was binding (the line started >=1 tick later than in its twin with the threshold zeroed) or one Wait of "
        ">= 1 tick was followed by a started successor. Distinct = distinct (program, schedule, totaliser, tick-time size).")
ASSUMPTIONS = [
    "an instruction 'starts' at the first tick get_method_state() reports its line started/executed/failed (DESIGN C03)",
    "the clock a line is judged against is the one of its lexical scope: Block Time/Volume of the innermost enclosing Block, "
    "Scope Time / Accumulated Volume of the program otherwise; thresholded lines are generated in the main thread only",
    "a tick that begins Running and ends Paused/Holding may or may not count for the clock: never-early uses the shadow that "
    "counts it, never-late the one that does not",
    "'the Wait started' is read both ways and only a start outside both windows is a violation: not earlier than d after the "
    "tick the Wait was first reported started, not later than d + one tick after the tick it began executing (one tick "
    "later); the narrower readings are counted as classes wait:late-vs-reported-start / wait:early-vs-execution-start",
    "the Wait upper bound is asserted only when no tick of the window began Paused/Holding (Wait counts engine time)",
    "the Wait lower bound must hold on both public reports of 'started': from the tick the Wait line was reported started to "
    "the tick its successor was (method state), and from the tick the Wait began executing to the tick its successor did (run "
    "log Started state = next interpreter tick after the entry); engine time, which includes pauses/holds during the Wait",
    "Base: CV is not covered (the harness unit registers no column volume)",
    "a new execution of a line (macro call, Alarm firing) is seen in get_method_state(): the line was not reported after the "
    "previous tick, or was reported executed and is now reported started again",
    "macro body lines are judged never-early only, against the clock of the scope of the calling main-thread line",
]
TIERS = {
    "quick": {"examples": 4800, "budget_s": 150, "chunk": 300, "depth": 2, "top": 6, "children": 4, "max_ticks": 260},
    "thorough": {"examples": 120000, "budget_s": 1500, "chunk": 300, "depth": 3, "top": 9, "children": 5, "max_ticks": 520},
}
# Watches (bodies without thresholds, blocks, Base, End block) run beside the main thread.  They do not change the lexical
# scope of any main-thread line, so the oracle is unchanged; on the current tree they expose that the interpreter reads the
# Scope Time of the most recently activated scope.  Switch off to explore without that class.
WATCHES = True
# Instructions that execute more than once in a run: macro bodies (Waits and thresholded lines) called repeatedly from the
# main thread, also inside Blocks and with Base changes between calls, and Alarm bodies (Waits).  Judged per execution.
REPEATED = True
EPS_T = 1e-6      # tick arithmetic on engine times (epoch-sized doubles drift ~1e-7 per tick)

_FSUM = [0.0]


def _fsum(k: int) -> Fraction:
    """value of a float clock after adding the float 0.1 k times, read the way the interpreter reads a tag: via str()"""
    while len(_FSUM) <= k:
        _FSUM.append(_FSUM[-1] + 0.1)
    return Fraction(repr(_FSUM[k]))


def _opts(cfg):
    return {"depth": cfg["depth"], "top": cfg["top"], "children": cfg["children"], "max_ticks": cfg["max_ticks"], "watch": WATCHES,
            "alarm": REPEATED, "macro": REPEATED}


def analyse(case):
    """-> (violations, info)"""
    out: list[Violation] = []
    info = {"classes": set(), "binding": 0, "waits": 0, "twins": 0, "macro_thr": 0}
    cls = info["classes"]

    def viol(sig, msg):
        if not any(v.sig == sig for v in out):
            out.append(Violation(sig, msg, case))

    lines = H.render(case["tree"])
    by_id = {l.id: l for l in lines}
    sched = H.resolved_sched(case)            # user requests incl. the directed ones, as absolute ticks
    ctx_case = dict(case, sched=sched)
    if case.get("rel"):
        cls.add("directed-pause/hold-around-a-wait-entry")
    r = H.run(case, sched=sched)
    if r.raised is not None:
        cls.add("not-judged:tick-raised")      # C13's subject
        return out, info
    if r.error is not None:
        cls.add("not-judged:method-error")     # outside the domain (C13/C20)
        return out, info
    n_ticks = len(r.ticks)
    T = [t[1] for t in r.ticks]                       # engine time of tick no (ticks are numbered 0..)
    interp = [t[3] == "Running" for t in r.ticks]     # the tick began Running: the interpreter ran in it
    both = [t[3] == "Running" and t[2] == "Running" for t in r.ticks]
    hi_pre = [0]
    lo_pre = [0]
    for j in range(n_ticks):
        hi_pre.append(hi_pre[-1] + (1 if interp[j] else 0))
        lo_pre.append(lo_pre[-1] + (1 if both[j] else 0))
    if any(not x for x in interp[1:]):
        cls.add("has-paused-or-held-ticks")

    # Block instances.  Names are free text and may repeat (also nested), so the listener's events are matched to Block
    # *lines* in order: blocks live in the main thread only and every Block line runs once, hence the k-th block_start event
    # carrying name X belongs to the k-th Block line named X that was reported started; a block_end event carrying name X ends
    # the most recently begun instance of X that is still open (End block ends the innermost block, End blocks from the inside out).
    block_start: dict = {}     # Block line id -> tick of its block_start event
    block_end: dict = {}
    prog_start = None
    pending: dict = {}
    for m in sorted((m for m in lines if m.kind == "block" and m.id in r.first_start), key=lambda m: (r.first_start[m.id], m.index)):
        pending.setdefault(m.bname, []).append(m.id)
    open_inst: dict = {}
    for e in r.events:
        if e[1] == "block_start" and e[2] != "root":
            q = pending.get(e[2])
            if q:
                lid = q.pop(0)
                block_start[lid] = e[0]
                open_inst.setdefault(e[2], []).append(lid)
            else:
                cls.add("not-judged:block-event-without-started-block-line")
        elif e[1] == "block_end" and e[2] != "root":
            if open_inst.get(e[2]):
                block_end[open_inst[e[2]].pop()] = e[0]
        elif e[1] == "scope_activate" and e[2] == "Program" and prog_start is None:
            prog_start = e[0]

    class _IV:
        """activation intervals [tick, end tick or None] of the Watch and Alarm scopes (an Alarm has one per firing)"""
        def __init__(self):
            self.iv: list = []
            self.open: dict = {}

        def values(self):
            return self.iv
    watch_iv = _IV()
    for e in r.events:
        if e[1] == "scope_activate" and e[2] in ("Watch", "Alarm"):
            watch_iv.open[e[3]] = [e[0], None]
            watch_iv.iv.append(watch_iv.open[e[3]])
        elif e[1] == "scope_end" and e[2] in ("Watch", "Alarm") and e[3] in watch_iv.open:
            watch_iv.open.pop(e[3])[1] = e[0]

    def interrupt_scope_visible(n_from, n_to):
        """some Watch scope is the most recently activated scope when the main thread runs in a tick of [n_from, n_to]:
        activated in an earlier tick (interrupts run after the main thread) and not ended before that tick"""
        return any(a < n and (e is None or n <= e) for a, e in watch_iv.values() for n in range(n_from, n_to + 1))

    def scope_of(l):
        """(scope line id or None for the program, nesting depth in blocks)"""
        p, depth, inner = l.parent, 0, None
        while p is not None:
            if by_id[p].kind == "block":
                depth += 1
                if inner is None:
                    inner = p
            p = by_id[p].parent
        return inner, depth

    def base_for(l):
        """Base unit in force when the main thread reaches l: the last Base line before it (source order = execution order
        in the main thread) that was executed at all; the default without any is min"""
        u = H.DEFAULT_BASE
        for m in lines[:l.index]:
            if m.kind == "base" and m.thread == "main" and m.id in r.first_start:
                u = m.node["u"]
        return u

    def count(pre, b, n):
        """ticks j with b <= j <= n-1 that are counted"""
        return pre[n] - pre[b] if n > b else 0

    # ---- thresholds -------------------------------------------------------------------------------------------
    for l in lines:
        if l.ts is None or l.thread != "main":
            continue
        n_s = r.first_start.get(l.id)
        unit = base_for(l)
        scope, nest = scope_of(l)
        b = block_start.get(scope) if scope is not None else prog_start
        is_time = unit in H.TIME_FACTOR
        thr = H.frac(l.ts) * (H.TIME_FACTOR[unit] if is_time else H.VOL_FACTOR[unit])
        b_vol = b if scope is not None else 0          # Accumulated Volume starts with the run (tick 0)

        def vol(n):
            return Fraction(r.tot_at[n]) - Fraction(r.tot_at[b_vol])

        if n_s is not None:
            if b is None or b > n_s:
                cls.add("not-judged:line-started-before-its-scope-began")      # nesting is C02/C05's subject
                continue
            # never early
            if is_time:
                reached = count(hi_pre, b, n_s) * H.INTERVAL
            else:
                reached = vol(n_s)
            if reached < thr:
                # a line that starts in the very tick its Block began has its own root cause (which clock value is visible
                # in that tick), kept apart from a line released too early while its block is running
                sig = "early:%s" % unit
                if scope is not None and n_s == b:
                    sig = "early:block-start-tick:%s" % ("time" if is_time else "volume")
                elif scope is not None and any(m.kind == "block" and m.bname == by_id[scope].bname and block_end.get(m.id, n_s + 1) <= n_s
                                               for m in lines[by_id[scope].index + 1:l.index]):
                    # kept apart: the clock of a block is lost when an inner block of the same name ends
                    sig = "early:%s:after-same-named-inner-block" % unit
                viol(sig, "%r (Base %s, %s) started at tick %d when its scope clock had at most %s %s of %s (scope began at tick %d)%s"
                     % (l.text.strip(), unit, "block level %d" % nest if nest else "program scope", n_s, float(reached),
                        "s" if is_time else "L", float(thr), b, _ctx(ctx_case, lines)))
        # never late: metamorphic twin
        if b is None:
            continue          # the scope never began: the line was never reachable
        horizon = n_ticks - 1
        twin_tree = H.with_threshold_zeroed(case["tree"], l.id)
        tw = H.run(case, tree=twin_tree, until_started=l.id, max_ticks=(n_s if n_s is not None else horizon), sched=sched)
        info["twins"] += 1
        n0 = tw.first_start.get(l.id)
        if tw.raised is not None or tw.error is not None:
            cls.add("not-judged:twin-error")
            continue
        if n0 is None:
            if n_s is not None:
                raise RuntimeError("C03 harness: line %s started at tick %d but not in its zero-threshold twin" % (l.id, n_s))
            cls.add("threshold-line-not-reached")
            continue

        def first_reached(exact: bool):
            n = n0
            while n <= horizon:
                if interp[n]:
                    if is_time:
                        k = count(lo_pre, b, n)
                        if (k * H.INTERVAL if exact else _fsum(k)) >= thr:
                            return n
                    elif n - 1 >= b_vol and Fraction(r.tot_at[n - 1]) - Fraction(r.tot_at[b_vol]) >= thr:
                        return n
                n += 1
            return None

        n_exact = first_reached(True)
        n_float = first_reached(False) if is_time else n_exact
        obs = n_s if n_s is not None else horizon + 1
        if n_s is not None and n_s > n0:
            info["binding"] += 1
            cls.add("bind:%s" % unit)
            cls.add("bind:nest%d" % min(nest, 3))
            if any(not interp[j] for j in range(n0, n_s + 1)):
                cls.add("bind:pause-or-hold-while-awaiting")
            if scope is not None:
                inner_same = [m for m in lines[by_id[scope].index + 1:l.index] if m.kind == "block" and m.id in block_end
                              and m.bname == by_id[scope].bname and block_end[m.id] <= n0]
                if inner_same:
                    cls.add("bind:in-block-after-a-same-named-inner-block-ended")
        elif n_s is not None:
            cls.add("threshold-not-binding")
        if n_s is not None and n_s > n0 and scope is None and is_time and interrupt_scope_visible(n0, n_s):
            cls.add("bind:program-scope-line-while-watch-scope-active")
        is_late = n_float is not None and obs > n_float and n_float <= horizon - 1
        is_fb = not is_late and n_exact is not None and obs > n_exact and n_exact <= horizon - 1
        n_should = n_float if is_late else n_exact
        if (is_late or is_fb) and scope is None and is_time and \
                all(interrupt_scope_visible(n, n) for n in range(n_should, min(obs, horizon + 1)) if interp[n]):
            # Root cause kept apart: in every tick from the one in which the line should have started, a Watch scope was the
            # most recently activated scope, and the line is released exactly when *that* scope (not the program scope the
            # line belongs to) has run T.
            def first_reached_visible(pre, exact):
                for n in range(n0, horizon + 1):
                    if not interp[n]:
                        continue
                    vis = [a for a, e in watch_iv.values() if a < n and (e is None or n <= e)]
                    k = count(pre, max(vis) if vis else b, n)
                    if (k * H.INTERVAL if exact else _fsum(k)) >= thr:
                        return n
                return horizon + 1
            # earliest explanation: exact arithmetic on the upper shadow; latest: float clock on the lower shadow
            if first_reached_visible(hi_pre, True) <= obs <= first_reached_visible(lo_pre, False):
                cls.add("threshold-awaited-while-interrupt-scope-active")
                viol("late:interrupt-scope-shadows-program-scope",
                     "%r (Base %s, program scope) could start at tick %d (twin with threshold 0) and the program scope (began tick %d) "
                     "had run %s s >= %s at tick %d, but the line %s - the tick at which the scope of a Watch/Alarm activated meanwhile "
                     "(Watch/Alarm scopes active: %s) had run that long%s"
                     % (l.text.strip(), unit, n0, b, float(count(lo_pre, b, n_should) * H.INTERVAL), float(thr), n_should,
                        "started at tick %d" % n_s if n_s is not None else "had not started by tick %d" % horizon,
                        sorted(watch_iv.values(), key=lambda x: x[0]), _ctx(ctx_case, lines)))
                continue
        if is_late:
            viol("late:%s:nest%d" % (unit, min(nest, 3)),
                 "%r (Base %s) could start at tick %d (twin with threshold 0) and its scope clock (began tick %d) had reached %s "
                 "at tick %d, but it %s%s" % (l.text.strip(), unit, n0, b, float(thr), n_float,
                                              "started at tick %d" % n_s if n_s is not None else "had not started by tick %d" % horizon,
                                              _ctx(ctx_case, lines)))
        elif is_fb:
            viol("late:float-boundary",
                 "%r (Base %s): %d counted ticks of 0.1 s = %s s have elapsed in its scope at tick %d, but the line %s: a clock adding "
                 "the float 0.1 per tick reads %s < %s%s"
                 % (l.text.strip(), unit, count(lo_pre, b, n_exact), float(thr), n_exact,
                    "started at tick %d" % n_s if n_s is not None else "had not started",
                    repr(_FSUM[count(lo_pre, b, n_exact)]), float(thr), _ctx(ctx_case, lines)))
            cls.add("float-boundary-threshold")

    # ---- thresholds in a macro body, per execution (never early only) ---------------------------------------------
    # A macro body line runs once per `Call macro`.  The clock taken is the one of the *calling* main-thread line: Block
    # Time / Block Volume of the innermost Block around the call, Scope Time / Accumulated Volume of the program for a call
    # outside any block - that is what "block time inside a block, scope time otherwise" says for an instruction executing
    # there, and every other candidate (a clock that began with the call) is younger, so never-early against it is implied
    # by never-early against any reading.  Never-late would depend on the reading and is not judged.  The Base unit is the
    # one in force when the execution starts (the last Base line executed before it; Base lines are main-thread only).
    calls = [m for m in lines if m.kind == "callmacro" and m.thread == "main"]
    base_lines = [m for m in lines if m.kind == "base" and m.thread == "main" and m.id in r.first_start]
    for l in lines:
        if l.ts is None or l.thread == "main" or by_id[l.thread].kind != "macro":
            continue
        units_seen = []
        for k, n_s in enumerate(r.starts.get(l.id, [])):
            mname = by_id[l.thread].node.get("name")
            act = [(max(t for t in r.starts[c.id] if t <= n_s), c) for c in calls
                   if c.node.get("name") == mname and any(t <= n_s for t in r.starts.get(c.id, []))]
            if not act:
                cls.add("not-judged:macro-line-without-main-thread-call")
                continue
            call = max(act, key=lambda x: x[0])[1]
            unit = H.DEFAULT_BASE
            bl = [(r.first_start[m.id], m) for m in base_lines if r.first_start[m.id] < n_s]
            if bl:
                unit = max(bl, key=lambda x: x[0])[1].node["u"]
            scope, nest = scope_of(call)
            b = block_start.get(scope) if scope is not None else prog_start
            if b is None or b > n_s:
                cls.add("not-judged:line-started-before-its-scope-began")
                continue
            is_time = unit in H.TIME_FACTOR
            thr = H.frac(l.ts) * (H.TIME_FACTOR[unit] if is_time else H.VOL_FACTOR[unit])
            if is_time:
                reached = count(hi_pre, b, n_s) * H.INTERVAL
            else:
                reached = Fraction(r.tot_at[n_s]) - Fraction(r.tot_at[b if scope is not None else 0])
            info["macro_thr"] += 1
            cls.add("macro-threshold:executed")
            if thr > 0 and reached - thr < (H.INTERVAL * 2 if is_time else Fraction(1, 2)):
                cls.add("macro-threshold:released-within-two-ticks-of-T")      # evidence that the threshold was binding
            if k >= 1:
                cls.add("macro-threshold:executed-again")
                if any(u != unit for u in units_seen):
                    cls.add("macro-threshold:executed-again-under-another-Base")
            units_seen.append(unit)
            if reached < thr:
                viol("early:%s%s" % (unit, ":repeated-execution" if k >= 1 else ":macro-body"),
                     "execution %d of macro line %r (called by %r, Base %s in force, %s) started at tick %d when that clock had at "
                     "most %s %s of %s (scope began at tick %d)%s"
                     % (k + 1, l.text.strip(), call.text.strip(), unit, "block level %d" % nest if nest else "program scope", n_s,
                        float(reached), "s" if is_time else "L", float(thr), b, _ctx(ctx_case, lines)))

    # ---- Wait, per execution --------------------------------------------------------------------------------------
    for l in lines:
        if l.kind != "wait" or not l.node.get("w"):
            continue
        w_starts = r.starts.get(l.id, [])
        if not w_starts:
            continue
        succ, gap = None, 0
        for m in lines[l.index + 1:]:
            if m.parent != l.parent:
                if m.depth <= l.depth:
                    break
                continue
            if m.kind in ("blank", "comment"):
                gap += 1
                continue
            succ = m
            break
        if succ is None:
            cls.add("wait:no-successor")
            continue
        d = H.wait_seconds(l.node["w"])
        df = float(d)
        ten = d * 10
        kind = "zero" if d == 0 else "sub-tick" if d < H.INTERVAL else "tick-multiple" if ten.denominator == 1 else "between-ticks"
        if len(w_starts) > 1:
            cls.add("wait:executed-again(%s)" % by_id[l.thread].kind)
        for k, t_s in enumerate(w_starts):
            rep_ = ":repeated-execution" if k >= 1 else ""
            t_next = w_starts[k + 1] if k + 1 < len(w_starts) else n_ticks + 9
            cand = [t for t in r.starts.get(succ.id, []) if t_s <= t < t_next]
            n_s = cand[0] if cand else None
            if n_s is not None:
                info["waits"] += 1 if d >= H.INTERVAL else 0
                cls.add("wait:%s" % kind)
                cls.add("wait-unit:%s" % l.node["w"][1])
                el = T[n_s] - T[t_s]
                if el < df - EPS_T:
                    viol("wait-early" + rep_, "%sexecution %d of %r was reported started at tick %d (t=%.6f); its successor %r started "
                         "at tick %d, %.6f s later (< %s s)%s"
                         % ("" if not k else "(starts of the Wait: ticks %s) " % w_starts[:6], k + 1, l.text.strip(), t_s, T[t_s] - T[0],
                            succ.text.strip(), n_s, el, df, _ctx(ctx_case, lines)))
                # The same bound on the other public report of "started", the run log's Started state = the tick the
                # instruction began executing (one interpreter tick after its line was entered), for the Wait and for its
                # successor alike.  Without a pause/hold in between this is the bound above shifted by one tick; with one, a
                # freeze that lies before the Wait began executing is not part of the Wait.
                e_w = next((j for j in range(t_s + 1, n_ticks) if interp[j]), None)
                e_s = next((j for j in range(n_s + 1, n_ticks) if interp[j]), None)
                if e_w is not None and e_s is not None:
                    if any(not interp[j] for j in range(t_s + 1, e_w + 1)):
                        cls.add("wait:pause-or-hold-between-entry-and-execution")
                    if T[e_s] - T[e_w] < df - EPS_T:
                        viol("wait-early:from-execution-start" + rep_,
                             "execution %d of %r: line entered at tick %d, began executing at tick %d (t=%.6f, first interpreter "
                             "tick after the entry%s); its successor %r began executing at tick %d, %.6f s later (< %s s)%s"
                             % (k + 1, l.text.strip(), t_s, e_w, T[e_w] - T[0],
                                "; the run was paused/held in between" if e_w > t_s + 1 else "", succ.text.strip(), e_s,
                                T[e_s] - T[e_w], df, _ctx(ctx_case, lines)))
                # narrower readings: counted, not judged
                if el > df + 0.1 + EPS_T:
                    cls.add("wait:late-vs-reported-start:%s" % kind)
                if t_s + 1 < n_ticks and T[n_s] < T[t_s + 1] + df - EPS_T:
                    cls.add("wait:early-vs-execution-start:%s" % kind)
            # upper bound
            if t_s + 1 >= n_ticks:
                continue
            bound = T[t_s + 1] + df + 0.1 + EPS_T
            n_b = t_s + 1
            while n_b + 1 < n_ticks and T[n_b + 1] <= bound:
                n_b += 1
            if n_b + 1 >= n_ticks:
                continue          # the window is not closed inside the observed run
            if not all(interp[j] for j in range(t_s + 1, n_b + 2)):
                cls.add("wait:pause-or-hold-in-window")
                continue
            if gap or succ.ts is not None:
                cls.add("wait:upper-not-judged(successor-thresholded-or-after-blank)")
                continue
            if l.thread != "main":
                # a Watch/Alarm inside a Block is aborted when that block ends: its remaining lines never run (not C03's subject)
                p_, aborted = by_id[l.thread].parent, False
                while p_ is not None:
                    if by_id[p_].kind == "block" and block_end.get(p_, n_ticks + 9) <= n_b + 1:
                        aborted = True
                    p_ = by_id[p_].parent
                if aborted:
                    cls.add("wait:upper-not-judged(watch-aborted-by-block-end)")
                    continue
            if n_s is None or n_s > n_b:
                viol("wait-late" + rep_, "execution %d of %r was reported started at tick %d and began executing at tick %d (t=%.6f); "
                     "its successor %r %s, later than %s s + one tick after that%s"
                     % (k + 1, l.text.strip(), t_s, t_s + 1, T[t_s + 1] - T[0], succ.text.strip(),
                        "started at tick %d (%.6f s after)" % (n_s, T[n_s] - T[t_s + 1]) if n_s is not None
                        else "had not started by tick %d" % (n_ticks - 1), df, _ctx(ctx_case, lines)))
    cls.add("t0:%s" % case["t0"])
    return out, info


def _ctx(case, lines) -> str:
    txt = [l.text for l in lines]
    s = " | method: " + " / ".join(txt)
    if case["sched"]:
        s += " | user: %s" % case["sched"]
    return s[:700]


def check_case(case):
    if not H.valid_case(case):
        return []
    return analyse(case)[0]


def run_shard(col, cfg):
    opts = _opts(cfg)

    def body(case):
        vs, info = analyse(case)
        nontrivial = info["binding"] > 0 or info["waits"] > 0
        classes = sorted(info["classes"])
        if info["binding"]:
            classes.append("has-binding-threshold")
        if info["waits"]:
            classes.append("has-wait>=1tick")
        col.count("twin-runs", info["twins"])
        col.record(case, nontrivial, classes=classes, violations=vs,
                   sample={"method": [l.text for l in H.render(case["tree"])], "sched": case["sched"], "rel": case.get("rel", []), "t0": case["t0"],
                           "tot": case["tot"][:6]})

    # Hypothesis keeps generating (cheap but not free) examples after the budget ran out; the shard's share is therefore
    # drawn in chunks with seeds derived from (seed, shard, chunk number), and no new chunk starts after the deadline.
    total = max(1, cfg["examples"] // col.nshards)
    chunk = int(cfg.get("chunk", 300))
    done = i = 0
    while done < total and not col.expired():
        n = min(chunk, total - done)
        hyp_run(H.cases(opts), body, n, shard_seed(col.seed, col.shard) * 1000 + i, col)
        done += n
        i += 1
