"""C13 — engine ticks never crash; method errors pause the run.

Statement (properties.jsonl): for any method text, injected code and user command schedule, with hardware and UOD
callbacks that return values in their declared domains, an engine tick never raises.  A failing instruction pauses the
run with Method Status 'Error' and marks the instruction as failed in the method state.  The engine stays responsive to
Stop and to a corrected method.

Domain  : campaigns of vp.harness.dialects_h: method text in three dialects (well-formed / semantically broken /
          lexically hostile, mixed), injected snippets of the same dialects, user control commands, live edits, input
          changes, cancel/force requests on offered run-log items.  No UOD command raises, no hardware fault.
Oracle  :
  (T) totality            no exception escapes Engine.tick          tick-raised:<exc>@<innermost openpectus frame>
  (E) error => paused     in every tick in which a method error is signalled (listener event, or Method Status turning
                          into Error during the tick) the tick ends with System State Paused and Method Status Error
                          (ticks with a Stop/Restart pending or ending Stopped/Restarting are not judged)
                                                                     error-not-paused
                          ... and when the engine itself attributes the error to a method line (NodeInterpretationError.node)
                          that line is in failed_line_ids            failed-line-missing:attributed-line
                                                                     failed-line-missing:after-live-edit  (after an accepted live edit)
  (S) failed => error     a method line that newly appears in failed_line_ids: the tick ends Paused + Method Status Error, in every run
                          of a case (error -> Stop -> Start / Restart -> error again)   failed-line-without-error-pause:<state>:<status>
  (K) known-bad lines     a line that the text recogniser classifies as known-bad (unknown instruction, bad UOD /
                          interpreter / engine-command arguments, incomparable units, unknown tag, missing condition,
                          missing macro, recursive macro) and that the engine reports started (Watch/Alarm: whose interrupt
                          registration - scope-start event - the listener saw) must, within WINDOW
                          undisturbed ticks, give Error + Paused with that line in failed_line_ids
                                                                     no-error-pause:<kind> / failed-line-missing:<kind>
                          undisturbed = no request of any kind between those ticks, no block end, every tick begins Running,
                          no other line failed first; disturbed windows are counted, not judged
  (K2) all failing lines  the same lines, judged independently of other failures: once reported started, after 1 (instruction raises in
                          its own visit) resp. 2 (Watch/Alarm condition, from its scope-start) further ticks in which the engine runs the interpreter - ticks
                          spent Paused/Holding are waited through, so this covers several lines failing in ONE tick (interrupt bodies
                          firing together) and a line failing after an Unpause without correction - the line is in failed_line_ids
                                                                     failed-line-missing:<kind>
                          dropped (counted) on edit / cancel / force / a block end / an error the engine attributes to no instruction
  (H) the pause holds     after (E), with no request of any kind and no timed Pause/Hold in the case, the run is still Paused
                          HOLD ticks later (a run that resumes by itself was not paused)   error-pause-not-held
  (R) responsiveness      bounded response after the campaign:
        stop   user Stop is accepted unless Stopped/Restarting, and System State is Stopped within 4 + (number of command
               requests pending at that moment) ticks, not counting ticks in which a command error is signalled (at most 8)
                                                                     unresponsive:stop-rejected / unresponsive:stop
        fix    the run sits in Error + Paused: the method is replaced by a corrected one (failed lines replaced by
               benign ones, not yet touched statements dropped, trailing 'Mark: tail' appended), Unpause, and the
               trailing Mark must run within a bound computed from the corrected method; judged only when the
               corrected method consists of recognised benign, finite lines; a refused edit (MethodEditError) is the
               documented rejection path and only counted     unresponsive:corrected-method:<what>
               for the first live edit of a run Method Status must be OK right after the edit is accepted and still when the
               trailing Mark runs                              unresponsive:corrected-method:status-still-error:<exc>
"""
from __future__ import annotations

import json
import os
import re
import shutil
import subprocess
import sys
import tempfile
import time

from vp.core.framework import Violation, hyp_run, shard_seed
from vp.harness import dialects_h as D

ID = "C13"
LEVEL = "exploration"
ENGINE = "engine_harness"
DESIGN_REF = "DESIGN.md §3 C13"
TECHNIQUE = ("Hypothesis-generated campaigns (3 P-code dialects x injected snippets x control/edit/cancel schedules) on the real "
             "Engine with a virtual clock; totality + history invariants + text-recognised known-bad expectations + bounded-response epilogues; "
             "thorough tier adds coverage-guided atheris fuzzing of the same strategy through hypothesis fuzz_one_input")
RULE = ("a case = method lines (well-formed tree rendered to text, with inserted known-bad / broken / hostile lines), a schedule of "
        "3-10 phases (0-2 requests: user command, inject, edit, input change, cancel/force; then 1-7 ticks), a drain, in a quarter of "
        "the cases with bad lines a second act (Stop + Start, Stop + set_method + Start, or Restart, then 12-30 ticks: a later run of the "
        "same engine) and an epilogue (stop | fix | none). Non-trivial = at least one method error was signalled during a tick (a malformed or failing line was "
        "reached). Distinct = distinct case JSON.")
ASSUMPTIONS = [
    "UOD callbacks stay in their declared domains: the raising command Boom and non-numeric arguments of Slow/OvA/OvB/Set are not generated",
    "method line content never contains a line feed (the frontend sends one MethodLine per line) and no lone surrogates (rejected by pydantic)",
    "a tick with a Stop/Restart pending or executing, or in which an Unpause executed (user request / expiry of a timed Pause), is not "
    "judged for error => paused (the statement does not order the two)",
    "generic failed-line check: only for errors the engine attributes to a method line; command errors (no attribution) are judged "
    "through the known-bad lines, there only while no code was injected, no user UOD command issued and nothing cancelled/forced",
    "a method that assigns the System State / Method Status tags with Simulate is judged for totality only (the tags are the observation)",
    "known-bad expectations are judged only in undisturbed windows of %d ticks; cancel/force/edit/inject/user requests disturb a window",
    "exceptions raised by inject_code, set_method, cancel_instruction and force_instruction themselves are outside the statement (counted as classes)",
    "the corrected-method epilogue is judged only for corrected methods made of recognised benign finite lines; MethodEditError = rejection path",
    "thorough tier: the atheris stage is bounded by -runs with a wall-clock cap; its executions are reported under coverage.fuzz_* and are "
    "not part of `evaluations`",
]
WINDOW = 4
HOLD = 3
ASSUMPTIONS = [a % WINDOW if "%d" in a else a for a in ASSUMPTIONS]
TIERS = {
    "quick": {"examples": int(os.environ.get("VERIF_C13_EXAMPLES", "16000")), "budget_s": 150},   # env: development aid for mutant runs
    "thorough": {"examples": int(os.environ.get("VERIF_C13_THOROUGH_EXAMPLES", "200000")), "budget_s": 1400, "deep": True,
                 "fuzz_runs": int(os.environ.get("VERIF_C13_FUZZ_RUNS", "64000")), "fuzz_cap_s": 300},
}

_TIMED = re.compile(r"(?:Pause|Hold)\b")
_STATE_SIM = re.compile(r"Simulate\s*:\s*(?:System State|Method Status)")


def _all_texts(case):
    return [l[1] for l in case["method"]] + [s[1] for s in case["steps"] if s[0] == "inject"] + \
           [s[1]["text"] for s in case["steps"] if s[0] == "edit"]


def _state_simulated(case) -> bool:
    """the method assigns the System State / Method Status tags themselves: the tags no longer show the engine's state,
    so only totality is judged"""
    return any(_STATE_SIM.search(t) for t in _all_texts(case))


def _has_timed_pause(case) -> bool:
    return any(_TIMED.search(t) for t in _all_texts(case))


# ---------------------------------------------------------------------------------------------------------------
# epilogues
# ---------------------------------------------------------------------------------------------------------------

def _orphan(c: D.Campaign) -> str:
    """mechanism label for the signature: an internal Stop/Restart command is registered as running although no request for it
    is executing or queued any more (its command manager was replaced)"""
    e = c.h.engine
    pending = set(c._names_pending())
    orphans = sorted(n for n in e.registry.get_running_command_names() if n in ("Stop", "Restart") and n not in pending)
    return "orphaned-%s-command" % "+".join(orphans) if orphans else "other"


def _epilogue_stop(c: D.Campaign, viol, info):
    c.phase = "stop"
    h = c.h
    for _ in range(3):
        if h.state != "Restarting":
            break
        if c.tick().raised is not None:
            return
    if h.state == "Stopped":
        info["stop:already-stopped"] = 1
        return
    if h.state == "Restarting":
        viol("unresponsive:restarting:%s" % _orphan(c), "System State still Restarting 3 ticks after the campaign")
        return
    before = h.state
    # Stop itself takes 2 ticks; every command request that is executed before it and fails costs one more tick (a raising command
    # ends the command phase of that tick), so the bound is derived from what is pending when Stop is requested
    bound = 4 + len(c._names_pending())
    if not c.user("Stop"):
        viol("unresponsive:stop-rejected", "user Stop rejected in state %s" % before)
        return
    # ... requests the interpreter still schedules before Stop's first phase are inserted ahead of it as well: a tick in which a
    # command error is signalled does not count towards the bound (at most 8 such ticks: a request failing in every tick starves Stop)
    quiet = total = 0
    while quiet < bound and total < bound + 8:
        rec = c.tick()
        if rec.raised is not None:
            return
        if h.state == "Stopped":
            info["stop:ok"] = 1
            return
        total += 1
        if not any(e[1] == "method_error" for e in rec.events):
            quiet += 1
    viol("unresponsive:stop:%s" % _orphan(c), "user Stop accepted in state %s but System State is %s (Method Status %s) %d ticks later "
         "(%d of them without a command error)" % (before, h.state, h.tagv("Method Status"), total, quiet))


def _corrected(lines, touched: set, failed: set):
    """-> (new_lines, reason) ; reason None when the corrected method is inside the judged domain"""
    idx = [i for i, l in enumerate(lines) if l[0] in touched]
    if not idx:
        return None, "nothing-touched"
    last = max(idx)
    # extend to the end of the top-level statement that contains `last`
    end = last + 1
    while end < len(lines):
        ind, rest = D.split_indent(lines[end][1])
        if ind == 0 and rest != "":
            break
        end += 1
    kept = [list(l) for l in lines[:end]]
    # drop trailing blank lines (they would stay 'not started' anyway)
    n = 0
    for i, l in enumerate(kept):
        if l[0] in failed:
            n += 1
            ind, _ = D.split_indent(l[1])
            if ind is None:
                return None, "failed-line-odd-indent"
            nxt = D.split_indent(kept[i + 1][1])[0] if i + 1 < len(kept) else 0
            l[1] = " " * ind + ("Watch: In2 > 99" if (nxt is not None and nxt > ind) else "Mark: fix%d" % n)
    prev_ind, prev_text = 0, ""
    for l in kept:
        if not D.benign(l[1]):
            return None, "not-benign"
        ind, rest = D.split_indent(l[1])
        if rest == "" or rest.startswith("#"):
            continue
        if ind > prev_ind and not (ind == prev_ind + 4 and D.is_container(prev_text)):
            return None, "odd-structure"
        if D.is_container(prev_text) and ind != prev_ind + 4:
            return None, "empty-body-opener"      # C17 known finding: the next line would be captured by the opener
        prev_ind, prev_text = ind, l[1]
    if D.is_container(prev_text):
        return None, "empty-body-opener"
    # a macro call needs its definition earlier in the corrected method (the generator may place a call before / without it)
    defined: set = set()
    for l in kept:
        ind, rest = D.split_indent(l[1])
        if ind == 0 and rest.startswith("Macro: "):
            defined.add(rest[len("Macro: "):])
        elif rest.startswith("Call macro: ") and rest[len("Call macro: "):] not in defined:
            return None, "call-of-undefined-macro"
    # a Block inside an Alarm body re-acquires the block lock on every invocation and can starve a Block of the main flow
    # (lock fairness is not this property): such methods are not judged
    stack: list = []
    for l in kept:
        ind, rest = D.split_indent(l[1])
        if rest == "" or rest.startswith("#"):
            continue
        while stack and stack[-1][0] >= ind:
            stack.pop()
        if rest.startswith("Block:") and any(t.startswith("Alarm") for _, t in stack):
            return None, "block-inside-alarm"
        stack.append((ind, rest))
    # a Block that is never ended keeps the block lock for good: every Block needs an End block(s) among its direct children
    for i, l in enumerate(kept):
        ind, rest = D.split_indent(l[1])
        if rest.startswith("Block:"):
            ended = False
            for m in kept[i + 1:]:
                ind2, rest2 = D.split_indent(m[1])
                if rest2 == "" or rest2.startswith("#"):
                    continue
                if ind2 <= ind:
                    break
                if ind2 == ind + 4 and rest2 in ("End block", "End blocks"):
                    ended = True
                    break
            if not ended:
                return None, "unterminated-block"
    kept.append(["tail", "Mark: tail"])
    return kept, None


def _epilogue_fix(c: D.Campaign, viol, info):
    c.phase = "fix"
    h = c.h
    last = c.recs[-1] if c.recs else None
    if last is None or not (h.state == "Paused" and str(h.tagv("Method Status")) == "Error"):
        info["fix:skip:not-in-error-pause"] = 1
        return
    if c.merged or c.injected:
        info["fix:skip:edited-or-injected"] = 1
        return
    if not last.failed:
        info["fix:skip:no-failed-line"] = 1
        return
    touched = set(last.started) | set(last.executed) | set(last.failed)
    new, reason = _corrected(c.lines, touched, set(last.failed))
    if new is None:
        info["fix:not-judged:%s" % reason] = 1
        return
    r = c.set_method(new)
    if r == "refused":
        info["fix:edit-refused"] = 1
        return
    if r.startswith("raised"):
        viol("unresponsive:corrected-method:set_method-%s" % r, "set_method of the corrected method raised (%s): %r" % (r, [l[1] for l in new]))
        return
    info["fix:" + r] = 1
    # the accepted live edit is the correction of the error: Method Status goes back to OK (first live edit of the run; the failing
    # instruction was a method line, whatever exception type the engine used to report it)
    cause = type(h.last_error).__name__ if h.last_error is not None else "?"
    status_judged = r == "merge_method"
    if status_judged and str(h.tagv("Method Status")) != "OK":
        viol("unresponsive:corrected-method:status-still-error:%s" % cause,
             "corrected method %r accepted (%s) but Method Status is %s (error was %s: %s)"
             % ([l[1] for l in new], r, h.tagv("Method Status"), cause, str(h.last_error)[:120]))
        status_judged = False
    if h.engine._runstate_holding:
        c.user("Unhold")
    if h.state == "Paused":
        if not c.user("Unpause"):
            viol("unresponsive:corrected-method:unpause-rejected", "Unpause rejected after the corrected method was accepted (state %s)" % h.state)
            return
    elif h.state == "Stopped":
        if not c.user("Start"):
            viol("unresponsive:corrected-method:start-rejected", "Start rejected after set_method in state Stopped")
            return
    n_wait = sum(1 for l in new if re.match(r" *Wait:", l[1]))
    n_call = sum(1 for l in new if re.match(r" *Call macro:", l[1]))
    bound = 40 + 6 * len(new) + 15 * n_wait * (1 + n_call)
    for _ in range(bound):
        rec = c.tick()
        if rec.raised is not None:
            return
        if any(e[1] == "mark" and e[2] == "tail" for e in rec.events):
            info["fix:tail-ran"] = 1
            if status_judged:
                if rec.status != "OK":
                    viol("unresponsive:corrected-method:status-not-ok-after-resume:%s" % cause,
                         "corrected method %r accepted and resumed, the trailing Mark ran, but Method Status is %s" % ([l[1] for l in new], rec.status))
                else:
                    info["fix:status-ok"] = 1
            return
        errs = [e for e in rec.events if e[1] == "method_error"]
        if errs:
            label = "completed-node-revisited" if "node.complete was set" in errs[0][3] else errs[0][2]
            viol("unresponsive:corrected-method:error-again:%s" % label,
                 "corrected method %r failed again: %s" % ([l[1] for l in new], errs[0][3][:200]))
            return
    viol("unresponsive:corrected-method:tail-never-ran",
         "corrected method %r accepted (%s) and unpaused, but the trailing Mark did not run within %d ticks (state %s, status %s)"
         % ([l[1] for l in new], r, bound, h.state, h.tagv("Method Status")))


# ---------------------------------------------------------------------------------------------------------------
# oracle over the records
# ---------------------------------------------------------------------------------------------------------------

def judge(case, c: D.Campaign, viol, info):
    recs = c.recs
    timed = _has_timed_pause(case)
    totality_only = _state_simulated(case)
    if totality_only:
        info["state-tags-simulated"] = 1
    reached: set = set()
    epoch = None
    open_exp: list = []     # [id, kind, reach_index]
    hold_watch: list = []   # [index of the error tick]
    pend: dict = {}         # (K2) line id -> [kind, interpreter ticks left, -]
    s_epoch, s_failed, runs = None, set(), 0
    all_texts = [l[1] for l in case["method"]]
    for i, r in enumerate(recs):
        if r.raised is not None:
            viol("tick-raised:%s@%s" % (type(r.raised).__name__, D.innermost_frame(r.raised)),
                 "tick %d raised %r" % (r.no, r.raised))
            info["raised"] = 1
            break
        errs = [e for e in r.events if e[1] == "method_error"]
        runs += sum(1 for e in r.events if e[1] == "start")
        turned = r.pre_status != "Error" and r.status == "Error"
        if errs:
            info["errors"] = info.get("errors", 0) + 1
        if totality_only:
            continue
        # (E)
        if errs or turned:
            if r.state in ("Stopped", "Restarting") or r.stop_pending:
                info["error-with-stop"] = 1
            elif any(e[1] == "runstate" and "UNPAUSE" in e[2].upper() for e in r.events):
                # an Unpause (user request, expiry or cancel of a timed Pause) executed in the command phase of the same tick
                info["error-with-unpause"] = 1
            else:
                if not (r.state == "Paused" and r.status == "Error"):
                    viol("error-not-paused", "tick %d: method error %s but the tick ends with System State %s, Method Status %s"
                         % (r.no, errs[0][2] if errs else "(status turned Error)", r.state, r.status))
                elif r.ms_exc is not None:
                    info["method-state-raised"] = 1
                elif r.err_node is None:
                    # error not attributed to an instruction by the engine (command errors are judged through (K))
                    info["error-without-attributed-instruction"] = 1
                elif r.err_node not in {l[0] for l in r.lines}:
                    info["error-in-injected-instruction"] = 1
                elif r.err_node not in r.failed:
                    if r.merged:
                        viol("failed-line-missing:after-live-edit",
                             "tick %d: Error + Paused, the engine blames line %r (%s) after an accepted live edit but failed_line_ids is %r "
                             "(started %r executed %r)" % (r.no, texts_of(r, r.err_node), errs[0][2] if errs else "", r.failed, r.started, r.executed))
                    else:
                        viol("failed-line-missing:attributed-line", "tick %d: Error + Paused, the engine blames line %r (%s) but failed_line_ids is %r"
                             % (r.no, texts_of(r, r.err_node), errs[0][3][:160] if errs else "", r.failed))
                else:
                    info["failed-line-confirmed"] = 1
                if r.state == "Paused" and r.status == "Error" and not timed and r.phase == "main":
                    hold_watch.append(i)
        # (S) a method line that newly appears in failed_line_ids is a failing instruction: the tick ends Paused with Method Status
        #     Error - in every run of the case, whatever the engine signalled (no reliance on the method-error event)
        if r.epoch != s_epoch:
            s_epoch, s_failed = r.epoch, set()
        if not r.merged and r.ms_exc is None and r.phase == "main":
            fresh = [x for x in r.failed if x not in s_failed and x != "root"]
            s_failed.update(r.failed)
            if fresh:
                if r.state in ("Stopped", "Restarting") or r.stop_pending:
                    info["error-with-stop"] = 1
                elif any(e[1] == "runstate" and "UNPAUSE" in e[2].upper() for e in r.events):
                    info["error-with-unpause"] = 1
                elif not (r.state == "Paused" and r.status == "Error"):
                    viol("failed-line-without-error-pause:%s:%s" % (r.state, r.status),
                         "tick %d: line %r newly reported failed, but the tick ends with System State %s, Method Status %s (run %d of the case, "
                         "method-error event in this tick: %s)" % (r.no, texts_of(r, fresh[0]), r.state, r.status, runs, bool(errs)))
                else:
                    info["S-confirmed"] = info.get("S-confirmed", 0) + 1
                    if runs >= 2:
                        info["S-confirmed-in-later-run"] = 1
        # (H)
        for j in list(hold_watch):
            if j == i:
                continue
            if r.gap or r.stop_pending or r.phase != "main":
                hold_watch.remove(j)
            elif r.state != "Paused":
                viol("error-pause-not-held", "tick %d: Error pause entered at tick %d, no request since, but System State is %s (Method Status %s)"
                     % (r.no, recs[j].no, r.state, r.status))
                hold_watch.remove(j)
            elif i - j >= HOLD:
                info["pause-held"] = 1
                hold_watch.remove(j)
        # (K)
        if r.phase != "main":
            open_exp = []
            continue
        if r.epoch != epoch:
            epoch, reached, open_exp = r.epoch, set(), []
            pend.clear()
        new_bad: list = []
        if (r.gap or any(e[1] == "block_end" for e in r.events)) and open_exp:
            # a request between the ticks, or a block that ended (its interrupts are removed before they evaluate their condition)
            info["window-disturbed"] = info.get("window-disturbed", 0) + len(open_exp)
            open_exp = []
        if not r.merged and r.ms_exc is None:
            texts = {l[0]: l[1] for l in r.lines}
            registered = {e[3] for e in r.events if e[1] == "scope_start" and e[2] in ("Watch", "Alarm")}
            for lid in r.started + r.failed:
                if lid in reached or lid not in texts:
                    continue
                kind = D.bad_kind(texts[lid], all_texts)
                if _k2_class(kind, texts[lid]) == "condition" and lid not in r.failed and r.foreign:
                    # something was cancelled / forced by request: a cancelled Watch/Alarm legitimately never evaluates its condition
                    reached.add(lid)
                    info["bad-condition-after-cancel-request"] = 1
                    continue
                if _k2_class(kind, texts[lid]) == "condition" and lid not in r.failed and lid not in registered:
                    # a Watch/Alarm evaluates its condition only after its interrupt has been registered (how long that takes after
                    # 'started' depends on where the line sits): its clock starts with the scope-start event for that line
                    continue
                reached.add(lid)
                if kind is None:
                    name = D.recursive_call(texts[lid])
                    if name is not None:
                        defs = D.recursive_defs(r.lines, name)
                        if defs is not None and all(d in r.executed for d in defs):
                            kind = "recursive-macro"
                if kind is not None:
                    new_bad.append((lid, kind))
                    open_exp.append([lid, kind, i])
                    info["bad-reached"] = info.get("bad-reached", 0) + 1
                    info["bad-reached:" + kind] = 1
        # (K2) every known-bad line ends up failed, also when several instructions fail in one tick or after an un-corrected Unpause
        dropped = (any(g[0] in ("edit", "cancel", "force", "cancel-raised", "force-raised") for g in r.gap)
                   or any(e[1] == "block_end" for e in r.events) or r.merged or r.ms_exc is not None
                   or (errs and r.err_node is None and all(e[2] in ("InterpretationError", "InterpretationInternalError") for e in errs)))
        if dropped:
            if pend:
                info["k2-dropped"] = info.get("k2-dropped", 0) + len(pend)
            pend.clear()
        elif r.interp_gate:
            again = {e[3] for e in r.events if e[1] == "scope_start" and e[2] in ("Watch", "Alarm")}
            for lid in list(pend):
                kind, left, others = pend[lid]
                if lid in again and lid not in r.failed:
                    # the interrupt of this Watch/Alarm was registered anew (e.g. by a re-arming Alarm around it): a fresh handler replaces
                    # the old one before it evaluated the condition, the clock starts again
                    pend[lid][1] = DEADLINE["condition"]
                    continue
                if lid in r.failed:
                    info["k2-confirmed"] = info.get("k2-confirmed", 0) + 1
                    if len(r.failed) > 1:
                        info["k2-confirmed-with-other-failed-lines"] = 1
                    del pend[lid]
                elif left <= 1:
                    viol("failed-line-missing:%s" % kind, "line %r (%s) was reported started and the interpreter has run %d more tick(s) (no edit, cancel, "
                         "force or block end in between), but at tick %d it is not in failed_line_ids %r (started %r; state %s, status %s)"
                         % (texts_of(r, lid), kind, DEADLINE[_k2_class(kind, texts_of(r, lid))], r.no, r.failed, r.started, r.state, r.status))
                    del pend[lid]
                else:
                    pend[lid][1] = left - 1
        for lid, kind in new_bad:
            if lid in r.started and lid not in r.failed and not dropped:
                cls = _k2_class(kind, texts_of(r, lid))
                if cls is not None:
                    pend[lid] = [kind, DEADLINE[cls], None]
        for exp in list(open_exp):
            lid, kind, ri = exp
            if ri != i and any(e[1] == "scope_start" and e[2] in ("Watch", "Alarm") and e[3] == lid for e in r.events):
                exp[2] = ri = i      # interrupt registered anew: the window starts again
            if r.state == "Paused" and r.status == "Error" and lid in r.failed:
                info["bad-confirmed"] = info.get("bad-confirmed", 0) + 1
                info["bad-confirmed:" + kind] = 1
                open_exp.remove(exp)
            elif r.state == "Paused" and r.status == "Error":
                # only an error signalled since the line was reached makes this an error pause: Method Status can still show the
                # error of an earlier run (Restart does not reset it) while the pause is the user's
                err_since = any(e[1] == "method_error" for rr in recs[ri:i + 1] for e in rr.events)
                if not err_since:
                    info["window-disturbed"] = info.get("window-disturbed", 0) + 1
                    info["paused-with-stale-error-status"] = 1
                elif not r.failed and not r.injected and not r.foreign:
                    viol("failed-line-missing:%s" % kind, "line %r (%s) started, the run is in Error + Paused at tick %d but failed_line_ids is empty"
                         % (texts_of(r, lid), kind, r.no))
                else:
                    info["window-disturbed"] = info.get("window-disturbed", 0) + 1
                open_exp.remove(exp)
            elif r.state != "Running" or r.stop_pending:
                info["window-disturbed"] = info.get("window-disturbed", 0) + 1
                open_exp.remove(exp)
            elif i - ri >= WINDOW:
                viol("no-error-pause:%s" % kind, "line %r (%s) reported started at tick %d; %d undisturbed Running ticks later there is no "
                     "Error pause (state %s, status %s, failed %r)" % (texts_of(r, lid), kind, recs[ri].no, WINDOW, r.state, r.status, r.failed))
                open_exp.remove(exp)


# (K2) how many interpreter ticks after 'started' the concrete visit of a known-bad line raises at the latest:
#   immediate  the visit method raises before its first yield: one tick after the generic 'started' step
#   condition  Watch/Alarm, counted from the scope-start event of the line (interrupt registered): the handler starts in the same
#              (registered by the main flow) or the next (registered inside an interrupt) interpreter tick and evaluates in the one after
DEADLINE = {"immediate": 1, "condition": 2}


def _k2_class(kind, text):
    if kind in ("unknown-instruction", "bad-interpreter-args", "missing-macro", "recursive-macro"):
        return "immediate"
    if kind in ("incomparable-units", "missing-condition"):
        return "condition"
    if kind == "unknown-tag":
        return "condition" if re.match(r" *(?:\d+(?:\.\d+)? )?(?:Watch|Alarm)", text or "") else "immediate"
    return None      # command errors (bad-uod-args, bad-engine-args) are marked by the command manager: judged by (K) only


def texts_of(r, lid):
    for l in r.lines:
        if l[0] == lid:
            return l[1]
    return None


def run_case(case):
    out: list[Violation] = []
    info: dict = {}

    def viol(sig, msg):
        if not any(v.sig == sig for v in out):
            out.append(Violation(sig, msg, case))

    c = D.Campaign(case, with_runlog=False)
    try:
        ok = c.run_steps()
        if ok and not _state_simulated(case):
            ep = case.get("epilogue", "none")
            if ep == "stop":
                _epilogue_stop(c, viol, info)
            elif ep == "fix":
                _epilogue_fix(c, viol, info)
        judge(case, c, viol, info)
    finally:
        c.close()
    for k, v in c.info.items():
        if v:
            info["ops:" + k] = v
    return out, info, c


def check_case(case):
    if not D.valid(case):
        return []
    if any("Boom" in l[1] for l in case["method"]) or any(s[0] == "fault" for s in case["steps"]):
        return []      # raising UOD callbacks are outside the stated domain
    return run_case(case)[0]


def shrink_hints(case):
    """drop a method line together with its indented children; drop the epilogue"""
    m = case["method"]
    for i in range(len(m)):
        ind = D.split_indent(m[i][1])[0] or 0
        j = i + 1
        while j < len(m) and (D.split_indent(m[j][1])[0] or 0) > ind:
            j += 1
        if j > i + 1:
            c2 = dict(case)
            c2["method"] = m[:i] + m[j:]
            yield c2
    if case.get("epilogue") != "none":
        c2 = dict(case)
        c2["epilogue"] = "none"
        yield c2


_CLASS_KEYS = ("paused-with-stale-error-status", "S-confirmed", "S-confirmed-in-later-run", "second-act", "k2-confirmed", "k2-confirmed-with-other-failed-lines", "k2-dropped", "raised", "errors", "error-with-stop", "error-with-unpause", "error-without-attributed-instruction", "error-in-injected-instruction", "failed-line-confirmed", "state-tags-simulated", "pause-held", "window-disturbed", "bad-reached", "bad-confirmed", "stop:ok",
               "stop:already-stopped", "fix:tail-ran", "fix:status-ok", "fix:edit-refused", "fix:merge_method", "fix:set_method", "fix:skip:not-in-error-pause",
               "fix:skip:edited-or-injected", "fix:skip:no-failed-line", "method-state-raised")


def run_shard(col, cfg):
    deep = bool(cfg.get("deep"))

    def body(case):
        vs, info, c = run_case(case)
        classes = ["mix:" + case["mix"], "epilogue:" + case["epilogue"]]
        if case.get("second_act"):
            classes.append("second-act:" + case["second_act"])
        for k in info:
            if k in _CLASS_KEYS or k.startswith(("bad-reached:", "bad-confirmed:", "fix:not-judged", "ops:")):
                classes.append(k)
        if len(c.recs) >= 60:
            classes.append("ticks>=60")
        col.record(case, bool(info.get("errors")), classes=classes, violations=vs,
                   sample={"method": [l[1] for l in case["method"]], "steps": [s for s in case["steps"] if s[0] != "tick"][:12],
                           "ticks": len(c.recs), "epilogue": case["epilogue"]})
    full_deadline = col.deadline
    if cfg.get("fuzz_runs"):
        col.deadline = full_deadline - float(cfg["fuzz_cap_s"])      # keep room for the coverage-guided stage
    hyp_run(D.campaign(deep=deep), body, max(1, cfg["examples"] // col.nshards), shard_seed(col.seed, col.shard), col)
    col.deadline = full_deadline
    if cfg.get("fuzz_runs"):
        _fuzz_stage(col, cfg)


def _fuzz_stage(col, cfg):
    """coverage-guided stage: atheris in a subprocess on /verif/fuzz/fuzz_c13.py (bytes -> Hypothesis fuzz_one_input -> same
    campaign strategy -> same oracle).  Bounded by -runs (deterministic) with a wall-clock cap; its executions are reported under
    coverage.fuzz_* and are not part of `evaluations`; every collected case is re-judged here by check_case."""
    from vp.core.framework import REPO, VERIF
    target = os.path.join(VERIF, "fuzz", "fuzz_c13.py")
    tmp = tempfile.mkdtemp(prefix="c13fuzz")
    try:
        corpus, outdir, art = os.path.join(tmp, "corpus"), os.path.join(tmp, "out"), os.path.join(tmp, "artifacts")
        for d in (corpus, outdir, art):
            os.makedirs(d)
        env = dict(os.environ)
        env["PYTHONPATH"] = os.pathsep.join([REPO, VERIF, os.path.join(VERIF, ".deps"), "/verif/.deps"])   # second entry: snapshot runs (vp run) share the installed copy
        env["PYTHONHASHSEED"] = "0"
        env["C13_FUZZ_OUT"] = outdir
        runs = int(cfg["fuzz_runs"]) // max(1, col.nshards)
        cap = int(max(10, min(float(cfg["fuzz_cap_s"]), col.deadline - time.monotonic())))     # budget only, never a verdict
        cmd = [sys.executable, target, "-runs=%d" % runs, "-seed=%d" % (shard_seed(col.seed, col.shard) + 1), "-max_total_time=%d" % cap,
               "-max_len=4096", "-len_control=0", "-timeout=120", "-artifact_prefix=" + art + os.sep, "-print_final_stats=0", corpus]
        seeds = os.path.join(VERIF, "fuzz", "corpus_c13")
        if os.path.isdir(seeds):
            cmd.append(seeds)
        proc = subprocess.run(cmd, env=env, cwd=tmp, stdout=subprocess.DEVNULL, stderr=subprocess.PIPE, text=True, errors="replace")
        stats_p = os.path.join(outdir, "stats.json")
        if not os.path.exists(stats_p):
            raise RuntimeError("atheris stage produced no stats (rc=%s): %s" % (proc.returncode, proc.stderr[-2000:]))
        with open(stats_p) as f:
            stats = json.load(f)
        col.extra["fuzz_execs"] = stats["execs"]
        col.extra["fuzz_valid_execs"] = stats["valid"]
        col.extra["fuzz_nontrivial_execs"] = stats["nontrivial"]
        for fn in sorted(os.listdir(outdir)):
            if fn.startswith("viol-") and fn.endswith(".json"):
                with open(os.path.join(outdir, fn)) as f:
                    case = json.load(f)
                col.count("fuzz:collected-violating-case")
                for v in check_case(case):
                    col.viol_counts[v.sig] += 1
                    lst = col.violations.setdefault(v.sig, [])
                    if len(lst) < col.MAX_VIOL_PER_SIG:
                        lst.append(v.to_json())
        # libFuzzer artifacts: slow-unit-* only says that one execution was slow on a loaded machine; the target runs in collect
        # mode, so crash-* can only stem from an exception inside harness code and timeout-* from a hang (> 120 s)
        names = os.listdir(art)
        col.extra["fuzz_slow_units"] = sum(1 for n in names if n.startswith("slow-unit-"))
        bad = sorted(n for n in names if n.startswith(("crash-", "timeout-", "oom-")))
        if bad:
            raise RuntimeError("atheris stage left artifacts %r (harness problem, not a verdict): %s" % (bad, proc.stderr[-1500:]))
    finally:
        shutil.rmtree(tmp, ignore_errors=True)
