"""Helpers of C41 (macros): program strategy with redefinitions / cycles, line records, edits, reference model.

A case program is a pcode_gen-style JSON tree (kinds mark, quick, wait, block, macro, callmacro, watch, blank, comment)
rendered with `pcode_gen.render` (unique payload per line).  Macro names come from A, B, C and may be defined several
times (redefinition) and call each other in any direction (cycles of length 1..3).  `records(tree)` turns the rendered
lines into plain dict records and inserts, after every top-level Watch, a synchronising `Wait` long enough for the
watch body (including the macros it calls) to finish before the main thread continues - so every case has one
well-defined sequential order of effects.

`simulate(recs)` is the reference model written from the statement of C41:
  * a `Macro` line, when executed, makes its body the current definition of that name;
  * `Call macro: X` runs the body lines of the current definition of X once, in order;
  * a call that would make a macro call itself (the macro is reachable from its own current body through current
    definitions) fails.  The statement does not fix *which* call of the chain fails, so every call on the execution
    path from the first call that can reach itself up to the call that closes the cycle is an accepted failure point
    (`fails`, ordered; the last one is mandatory).
"""
from __future__ import annotations

import copy

from hypothesis import strategies as st

from vp.harness import pcode_gen as G

NAMES = ["A", "B", "C"]
ALLOWED_KINDS = {"mark", "quick", "wait", "block", "macro", "callmacro", "watch", "alarm", "blank", "comment", "endblock"}
WATCH_COND = {"tag": "In2", "op": ">=", "val": 0, "unit": None}     # inputs are 0: true from the first evaluation


# ---------------------------------------------------------------------------------------------
# strategy
# ---------------------------------------------------------------------------------------------

def _leaf(kind, **kw):
    d = {"k": kind, "t": None}
    d.update(kw)
    return d


@st.composite
def _body_items(draw, callable_names: list, depth: int, max_items: int, allow_block: bool, min_items: int = 1):
    """items of a macro body / block / watch body: marks, calls, quick commands, short waits, nested block"""
    out = []
    for _ in range(draw(st.integers(min_items, max_items))):
        r = draw(st.integers(0, 12))
        if r <= 3:
            out.append(_leaf("mark"))
        elif r <= 7:
            if callable_names:
                out.append(_leaf("callmacro", name=draw(st.sampled_from(callable_names))))
            else:
                out.append(_leaf("mark"))
        elif r == 8:
            out.append(_leaf("quick"))
        elif r == 9:
            out.append(_leaf("wait", d=draw(st.sampled_from([0.0, 0.1, 0.3]))))
        elif r <= 11 and allow_block and depth > 0:
            ch = draw(_body_items(callable_names, depth - 1, 2, False, min_items=0))
            out.append({"k": "block", "t": None, "c": ch, "end": "endblock", "end_t": None})
        else:
            out.append(_leaf(draw(st.sampled_from(["blank", "comment", "mark"]))))
    return out


@st.composite
def _interrupt_recursion(draw):
    """a cycle of 1-3 macros in which one link is a `Call macro` inside a Watch or Alarm (condition true at once) in the
    macro body; the other links are direct calls or calls nested in a Block"""
    order = list(draw(st.permutations(NAMES)))
    n = draw(st.integers(1, 3))
    cyc = order[:n]
    wrap = draw(st.integers(0, n - 1))
    body = []
    if draw(st.booleans()):
        body.append(_leaf("mark"))
    for i, name in enumerate(cyc):
        call = _leaf("callmacro", name=cyc[(i + 1) % n])
        items = [_leaf(draw(st.sampled_from(["mark", "mark", "quick"]))) for _ in range(draw(st.integers(0, 2)))]
        if i == wrap:
            ib = ([_leaf("mark")] if draw(st.booleans()) else []) + [call] + ([_leaf("mark")] if draw(st.booleans()) else [])
            items.append({"k": draw(st.sampled_from(["watch", "watch", "alarm"])), "t": None, "cond": dict(WATCH_COND), "c": ib})
        elif draw(st.integers(0, 3)) == 0:
            items.append({"k": "block", "t": None, "c": [call], "end": "endblock", "end_t": None})
        else:
            items.append(call)
        items.extend(_leaf("mark") for _ in range(draw(st.integers(0, 2))))
        body.append({"k": "macro", "t": None, "name": name, "c": items})
    for name in order[n:]:
        if draw(st.booleans()):
            body.append({"k": "macro", "t": None, "name": name, "c": [_leaf("mark")]})
            body.append(_leaf("callmacro", name=name))
    body.append(_leaf("mark"))
    body.append(_leaf("callmacro", name=draw(st.sampled_from(cyc))))
    body.append(_leaf("wait", d=1.0))
    body.append(_leaf("mark"))
    if draw(st.booleans()):
        body.append(_leaf("callmacro", name=draw(st.sampled_from(cyc))))
    return body


@st.composite
def _macro_ending_block(draw):
    """a macro whose last line is `End block`, called from lines of top-level Blocks (the Block ends with the call, the rest
    of the Block is skipped) and from the top level (nothing to end), several times"""
    order = list(draw(st.permutations(NAMES)))
    m, helper = order[0], order[1]
    body = []
    use_helper = draw(st.booleans())
    if use_helper:
        body.append({"k": "macro", "t": None, "name": helper, "c": [_leaf("mark")]})
    items = [_leaf(draw(st.sampled_from(["mark", "mark", "quick"]))) for _ in range(draw(st.integers(1, 3)))]
    if use_helper and draw(st.booleans()):
        items.insert(draw(st.integers(0, len(items))), _leaf("callmacro", name=helper))
    items.append(_leaf("endblock"))
    body.append({"k": "macro", "t": None, "name": m, "c": items})
    for _ in range(draw(st.integers(2, 4))):
        r = draw(st.integers(0, 3))
        if r <= 1:
            ch = [_leaf("mark")] if draw(st.booleans()) else []
            ch.append(_leaf("callmacro", name=m))
            ch.extend(_leaf("mark") for _ in range(draw(st.integers(0, 2))))
            body.append({"k": "block", "t": None, "c": ch, "end": "endblock", "end_t": None})
        elif r == 2:
            body.append(_leaf("callmacro", name=m))
        else:
            body.append(_leaf("mark"))
        if draw(st.booleans()):
            body.append(_leaf("mark"))
    body.append(_leaf("callmacro", name=m))
    body.append(_leaf("mark"))
    return body


@st.composite
def _redefinition_in_flight(draw):
    """a macro is re-defined while one of its calls is in progress (the `Macro:` line sits in its own body or in the body of
    a macro it calls), then called again: the later calls run the new body"""
    order = list(draw(st.permutations(NAMES)))
    a, b = order[0], order[1]
    nested = {"k": "macro", "t": None, "name": a, "c": [_leaf(draw(st.sampled_from(["mark", "quick"]))) for _ in range(draw(st.integers(1, 2)))]}
    body = []
    pre = [_leaf("mark") for _ in range(draw(st.integers(0, 2)))]
    post = [_leaf("mark") for _ in range(draw(st.integers(0, 2)))]
    if draw(st.booleans()):
        body.append({"k": "macro", "t": None, "name": a, "c": pre + [nested] + post + ([] if pre or post else [_leaf("mark")])})
    else:
        body.append({"k": "macro", "t": None, "name": b, "c": [_leaf("mark"), nested] + ([_leaf("mark")] if draw(st.booleans()) else [])})
        body.append({"k": "macro", "t": None, "name": a, "c": pre + [_leaf("callmacro", name=b)] + post})
    body.append(_leaf("mark"))
    for _ in range(draw(st.integers(2, 3))):
        if draw(st.integers(0, 3)) == 0:
            body.append({"k": "block", "t": None, "c": [_leaf("callmacro", name=a)], "end": "endblock", "end_t": None})
        else:
            body.append(_leaf("callmacro", name=a))
        if draw(st.booleans()):
            body.append(_leaf("mark"))
    body.append(_leaf("mark"))
    return body


@st.composite
def programs(draw, max_top: int = 9, max_body: int = 4):
    """flavor 'dag'   : a body only calls alphabetically lower names that are already defined (no cycles, no undefined
                        calls); redefinitions are frequent;
    flavor 'noself': a body calls any other name (cycles of length 2-3, closing call first / later / nested in a block);
    flavor 'free'  : any name anywhere (self recursion, calls before definition)."""
    flavor = draw(st.sampled_from(["dag", "dag", "dag", "noself", "noself", "noself", "free", "intrec", "endblk", "redef-in-flight"]))
    defined: list = []
    body = []
    if flavor == "intrec":
        return {"base": None, "body": draw(_interrupt_recursion()), "flavor": flavor}
    if flavor == "endblk":
        return {"base": None, "body": draw(_macro_ending_block()), "flavor": flavor}
    if flavor == "redef-in-flight":
        return {"base": None, "body": draw(_redefinition_in_flight()), "flavor": flavor}

    def callable_for(name):
        if flavor == "dag":
            return [n for n in defined if n < name]
        if flavor == "noself":
            return [n for n in NAMES if n != name]
        return list(NAMES)

    def add_def(name):
        ch = draw(_body_items(callable_for(name), 1, max_body, True))
        if all(c["k"] in ("blank", "comment") for c in ch):
            ch.append(_leaf("mark"))
        body.append({"k": "macro", "t": None, "name": name, "c": ch})
        if name not in defined:
            defined.append(name)

    order = list(draw(st.permutations(NAMES)))
    n_first = draw(st.integers(1, 3)) if (flavor == "dag" or draw(st.integers(0, 3)) == 0) else 3
    for name in order[:n_first]:
        if draw(st.integers(0, 3)) == 0:
            body.append(_leaf("mark"))
        add_def(name)
    n_watch = 0
    for i in range(draw(st.integers(2, max_top))):
        r = draw(st.integers(0, 19))
        if r <= 5:
            add_def(draw(st.sampled_from(sorted(defined))) if draw(st.integers(0, 9)) < 7 else draw(st.sampled_from(NAMES)))
        elif r <= 13:
            pool = sorted(defined) if (flavor == "dag" or draw(st.integers(0, 7)) > 0) else NAMES
            body.append(_leaf("callmacro", name=draw(st.sampled_from(pool))))
        elif r == 14:
            body.append(_leaf("mark"))
        elif r <= 16:
            pool = sorted(defined) if flavor != "free" else list(NAMES)
            ch = draw(_body_items(pool, 0, 3, False))
            body.append({"k": "block", "t": None, "c": ch, "end": "endblock", "end_t": None})
        elif r <= 18 and n_watch < 2:
            pool = sorted(defined) if flavor != "free" else list(NAMES)
            ch = draw(_body_items(pool, 0, 3, False))
            ch = [c for c in ch if c["k"] in ("mark", "callmacro", "quick")] or [_leaf("mark")]
            body.append({"k": "watch", "t": None, "cond": dict(WATCH_COND), "c": ch})
            n_watch += 1
        else:
            k = draw(st.sampled_from(["wait", "comment", "mark"]))
            body.append(_leaf(k, d=0.2) if k == "wait" else _leaf(k))
    return {"base": None, "body": body, "flavor": flavor}


EDIT_KINDS = ["comment", "chg-mark", "add-line", "del-line", "remove-def"]


@st.composite
def edits(draw, max_edits: int = 3):
    out = []
    if draw(st.integers(0, 2)) == 0:
        return out
    for _ in range(draw(st.integers(1, max_edits))):
        out.append({"at": draw(st.integers(1, 90)), "kind": draw(st.sampled_from(EDIT_KINDS + ["add-line", "chg-mark"])),
                    "def": draw(st.integers(0, 5))})
    out.sort(key=lambda e: e["at"])
    return out


# ---------------------------------------------------------------------------------------------
# validity (check_case guards the domain: the shrinker produces arbitrary sub-cases)
# ---------------------------------------------------------------------------------------------

def valid_tree(tree) -> bool:
    if not isinstance(tree, dict) or not isinstance(tree.get("body"), list) or tree.get("base") not in (None, "s"):
        return False

    def ok(nodes, where):
        if not isinstance(nodes, list):
            return False
        for n in nodes:
            if not isinstance(n, dict) or n.get("k") not in ALLOWED_KINDS or n.get("t") is not None:
                return False
            k = n["k"]
            if k == "macro":
                if where == "macro":
                    # a definition nested in a macro body (re-definition while a call is in progress): marks / commands only
                    if n.get("name") not in NAMES or not n.get("c") or not isinstance(n["c"], list) or \
                            any((not isinstance(c, dict)) or c.get("k") not in ("mark", "quick") or c.get("t") is not None for c in n["c"]):
                        return False
                    continue
                if where != "top" or n.get("name") not in NAMES or not n.get("c") or not ok(n["c"], "macro"):
                    return False
                if all(c["k"] in ("blank", "comment") for c in n["c"]):
                    return False
            elif k == "endblock":
                # explicit End block: only as the last line of a macro body (it ends the Block the macro is called from)
                if where != "macro" or n is not nodes[-1]:
                    return False
            elif k == "callmacro":
                if n.get("name") not in NAMES:
                    return False
            elif k in ("watch", "alarm"):
                # top level: Watch only (followed by a synchronising Wait); inside a macro body: Watch or Alarm (only judged
                # when it takes part in a recursive call chain, see simulate)
                if where not in ("top", "macro") or (where == "top" and k != "watch") or n.get("cond") != WATCH_COND or not n.get("c"):
                    return False
                if any((not isinstance(c, dict)) or c.get("k") not in ("mark", "callmacro", "quick") or c.get("t") is not None
                       or (c.get("k") == "callmacro" and c.get("name") not in NAMES) for c in n["c"]):
                    return False
            elif k == "block":
                if n.get("end") != "endblock" or n.get("end_t") is not None or where in ("block", "watch"):
                    return False
                if not ok(n.get("c", []), "block"):
                    return False
            elif k == "wait":
                if not isinstance(n.get("d"), (int, float)) or isinstance(n.get("d"), bool) or not (0 <= n["d"] <= 1.0):
                    return False
            if where == "block" and k in ("macro", "watch", "alarm", "block"):
                return False
        return True
    return ok(tree["body"], "top")


def valid_edits(eds) -> bool:
    if not isinstance(eds, list) or len(eds) > 6:
        return False
    last = 0
    for e in eds:
        if not isinstance(e, dict) or e.get("kind") not in EDIT_KINDS:
            return False
        for f in ("at", "def"):
            if not isinstance(e.get(f), int) or isinstance(e.get(f), bool) or e[f] < 0 or e[f] > 10_000:
                return False
        if e["at"] < last:
            return False
        last = e["at"]
    return True


# ---------------------------------------------------------------------------------------------
# records
# ---------------------------------------------------------------------------------------------

def _rec(line: G.Line) -> dict:
    n = line.node or {}
    return {"id": line.id, "text": line.text, "kind": line.kind, "payload": line.payload, "depth": line.depth,
            "name": n.get("name") if line.kind in ("macro", "callmacro") else None,
            "d": float(n.get("d", 0.0)) if line.kind == "wait" else 0.0}


def records(tree) -> list:
    """rendered line records with a synchronising Wait after every top-level Watch"""
    recs = [_rec(l) for l in G.render(tree)]
    # find watches (top level by construction), compute their body step counts with the model, insert the waits
    sim = simulate(recs, sync=False)
    out = []
    i = 0
    k = 0
    while i < len(recs):
        r = recs[i]
        out.append(r)
        i += 1
        if r["kind"] == "watch" and r["depth"] == 0:
            while i < len(recs) and recs[i]["depth"] > r["depth"]:
                out.append(recs[i])
                i += 1
            k += 1
            # long enough for the whole body, the Waits inside the macros it calls included (25 % and 1 s of margin)
            d = round(0.1 * 1.25 * sim.watch_ticks.get(r["id"], 5) + 1.0, 1)
            out.append({"id": "w%d" % k, "text": "    " * r["depth"] + "Wait: %ss" % G._fmt(d), "kind": "wait", "payload": None,
                        "depth": r["depth"], "name": None, "d": d, "sync": True})
    return out


def method_lines(recs) -> list:
    return [(r["id"], r["text"]) for r in recs]


def _nest(recs):
    """list of top-level nodes {rec, children}"""
    root: list = []
    stack = [(-1, root)]
    for r in recs:
        node = {"rec": r, "children": []}
        while stack and stack[-1][0] >= r["depth"]:
            stack.pop()
        stack[-1][1].append(node)
        stack.append((r["depth"], node["children"]))
    return root


# ---------------------------------------------------------------------------------------------
# reference model
# ---------------------------------------------------------------------------------------------

class _Stop(Exception):
    pass


class _EndBlock(Exception):
    """an End block executed as the last line of a macro that was called directly from a Block"""


class Sim:
    def __init__(self):
        self.steps: list = []          # dicts: line, kind, eff, resolved (def id for calls), stack (tuple of def ids)
        self.fails: list = []          # (step index, reason 'cycle'|'closing'|'undefined')
        self.outcome = "complete"      # complete | cycle | undefined | unjudged
        self.cycle_len = 0
        self.cycle_cls = ""
        self.cycle_in_watch = False    # the failing call chain runs in a Watch body (the main thread is not part of it)
        self.cycle_via_interrupt = False   # the chain passes a Watch/Alarm inside a macro body: only the first (static)
        #                                    failure point has a well-defined trace, later ones are accepted by line only
        self.block_ended_by_macro = False
        self.nested_def_executed = False
        self.unjudged_at = None        # step index where a Watch/Alarm inside a macro body starts outside any recursive chain
        self.ticks = 0.0
        self.watch_steps: dict = {}
        self.watch_ticks: dict = {}    # model ticks spent in the body of a Watch (2 per line + the Waits it runs)
        self.defs: list = []           # ids of all Macro lines (textual order)
        self.def_name: dict = {}
        self.calls_resolved: dict = {}  # name -> list of def ids in call order (completed model calls)

    def effects(self, upto_step: int | None = None):
        s = self.steps if upto_step is None else self.steps[:upto_step]
        return [x["eff"] for x in s if x["eff"] is not None]

    @property
    def redefinition_between_calls(self) -> bool:
        return any(len(set(v)) >= 2 for v in self.calls_resolved.values())


def _calls_in(node, nested=False):
    """(call node, is_direct_child, reached through a Watch/Alarm) for every Call macro below a macro node"""
    out = []
    for ch in node["children"]:
        if ch["rec"]["kind"] == "callmacro":
            out.append((ch, True, False))
        elif ch["children"] and ch["rec"]["kind"] != "macro":
            for sub, intr in _all_calls(ch, ch["rec"]["kind"] in ("watch", "alarm")):
                out.append((sub, False, intr))
    return out


def _all_calls(node, intr=False):
    out = []
    for ch in node["children"]:
        if ch["rec"]["kind"] == "callmacro":
            out.append((ch, intr))
        if ch["rec"]["kind"] != "macro":      # a macro defined in the body is a definition, not a call
            out.extend(_all_calls(ch, intr or ch["rec"]["kind"] in ("watch", "alarm")))
    return out


def _cycle_through(name: str, table: dict, mode: str):
    """shortest call path name -> ... -> name through the current definitions, or None.
    mode 'first': follow only the first direct Call child that names a defined macro (what a shallow check sees);
    mode 'direct': any direct Call child; mode 'blocks': also calls nested in Blocks; mode 'any': calls at any depth of
    the body including Watch/Alarm bodies."""
    frontier = [(name, [name])]
    seen = {name}
    while frontier:
        nxt = []
        for cur, path in frontier:
            calls = _calls_in(table[cur])
            if mode == "first":
                cand = [c for c in calls if c[1] and c[0]["rec"]["name"] in table][:1]
            elif mode == "direct":
                cand = [c for c in calls if c[1]]
            elif mode == "blocks":
                cand = [c for c in calls if not c[2]]
            else:
                cand = calls
            for c, _d, _i in cand:
                tgt = c["rec"]["name"]
                if tgt == name:
                    return path
                if tgt in table and tgt not in seen:
                    seen.add(tgt)
                    nxt.append((tgt, path + [tgt]))
        frontier = nxt
    return None


def simulate(recs, sync: bool = True) -> Sim:
    sim = Sim()
    table: dict = {}
    top = _nest(recs)
    for r in recs:
        if r["kind"] == "macro":
            sim.defs.append(r["id"])
            sim.def_name[r["id"]] = r["name"]

    in_watch = [False]

    def step(rec, eff=None, resolved=None, stack=(), blocks=0):
        sim.steps.append({"line": rec["id"], "kind": rec["kind"], "eff": eff, "resolved": resolved, "stack": tuple(stack),
                          "blocks": blocks, "watch": in_watch[0]})
        sim.ticks += 2 + (rec["d"] * 10 if rec["kind"] == "wait" else 0)
        return len(sim.steps) - 1

    executed_nested_defs: set = set()
    call_sites: list = []     # context ('top' | 'block' | 'macro' | 'watch') of the call line of every open invocation

    def unjudged():
        sim.unjudged_at = len(sim.steps)
        raise _Stop()

    def run(nodes, stack_names, stack_defs, blocks=0, ctx="top", owner="top"):
        """blocks = number of Blocks open on the dynamic path (the caller's included); ctx = what the lines belong to
        dynamically (top | block | watch | macro); owner = kind of the line that owns `nodes`"""
        for n in nodes:
            r = n["rec"]
            k = r["kind"]
            if k == "endblock" and owner == "macro":
                # explicit End block at the end of a macro body.  Judged in two situations only (everything else is left alone:
                # the statement does not say what the rest of a cut-short call chain does): the macro was called from the top
                # level with no Block open (nothing to end), or directly from a line of a top-level Block (ends that Block: the
                # rest of the Block is skipped)
                step(r, stack=stack_defs, blocks=blocks)
                if n is not nodes[-1]:
                    unjudged()
                if len(call_sites) == 1 and blocks == 0 and call_sites[0] in ("top", "watch"):
                    continue
                if len(call_sites) == 1 and blocks == 1 and call_sites[0] == "block" and not in_watch[0]:
                    raise _EndBlock()
                unjudged()
            if k == "macro" and owner == "macro":
                # definition nested in a macro body: registered when the line runs.  The engine registers a definition node once
                # per method version; what a second execution of the line means is not stated, so judging stops there.
                if r["id"] in executed_nested_defs:
                    unjudged()
                executed_nested_defs.add(r["id"])
                sim.nested_def_executed = True
                table[r["name"]] = n
                step(r, stack=stack_defs, blocks=blocks)
                continue
            if k == "mark":
                step(r, ("mark", r["payload"]), stack=stack_defs, blocks=blocks)
            elif k == "quick":
                step(r, ("cmd", r["payload"]), stack=stack_defs, blocks=blocks)
            elif k == "block":
                step(r, ("block", r["payload"]), stack=stack_defs, blocks=blocks)
                try:
                    run(n["children"], stack_names, stack_defs, blocks + 1, "block" if ctx == "top" else ctx, "block")
                except _EndBlock:
                    if ctx != "top":
                        raise
                    sim.block_ended_by_macro = True
            elif k == "macro":
                table[r["name"]] = n
                step(r, stack=stack_defs, blocks=blocks)
            elif k in ("watch", "alarm"):
                if stack_names:
                    # Watch/Alarm inside a macro body.  Its body runs concurrently with the rest of the macro and re-arms in ways
                    # the statement says nothing about, so it is only followed as part of a recursive call chain (a call that
                    # can reach itself is already on the path); otherwise judging stops here (prefix only).
                    if not sim.fails:
                        sim.unjudged_at = len(sim.steps)
                        raise _Stop()
                    sim.cycle_via_interrupt = True
                step(r, stack=stack_defs, blocks=blocks)
                before = len(sim.steps)
                ticks_before = sim.ticks
                sim.ticks += 3
                was = in_watch[0]
                in_watch[0] = True
                try:
                    run(n["children"], stack_names, stack_defs, blocks, "watch" if ctx == "top" else ctx, "watch")
                finally:
                    # also when the body stops at a failing call: the synchronising Wait must cover everything before it
                    in_watch[0] = was
                    sim.watch_steps[r["id"]] = len(sim.steps) - before
                    sim.watch_ticks[r["id"]] = sim.ticks - ticks_before
            elif k == "callmacro":
                idx = step(r, stack=stack_defs, blocks=blocks)
                name = r["name"]
                if name not in table:
                    sim.fails.append((idx, "undefined"))
                    raise _Stop()
                if name in stack_names:
                    sim.fails.append((idx, "closing"))
                    raise _Stop()
                d = table[name]
                if _cycle_through(name, table, "any") is not None:
                    sim.fails.append((idx, "cycle"))
                    if not sim.cycle_len:
                        p_any = _cycle_through(name, table, "any")
                        sim.cycle_len = len(p_any)
                        if _cycle_through(name, table, "first") is not None:
                            sim.cycle_cls = "first-call"
                        elif _cycle_through(name, table, "direct") is not None:
                            sim.cycle_cls = "later-call"
                        elif _cycle_through(name, table, "blocks") is not None:
                            sim.cycle_cls = "nested-call"
                        else:
                            sim.cycle_cls = "interrupt-call"    # only through a call in a Watch/Alarm body inside a macro
                sim.steps[idx]["resolved"] = d["rec"]["id"]
                call_sites.append(ctx)
                try:
                    run(d["children"], stack_names + [name], stack_defs + [d["rec"]["id"]], blocks, "macro", "macro")
                except _EndBlock:
                    # the call ends with the Block it sits in; it still was one complete run of the body
                    sim.steps[idx]["done"] = len(sim.steps)
                    sim.calls_resolved.setdefault(name, []).append(d["rec"]["id"])
                    raise
                finally:
                    call_sites.pop()
                sim.steps[idx]["done"] = len(sim.steps)
                sim.calls_resolved.setdefault(name, []).append(d["rec"]["id"])
            else:   # wait, blank, comment, endblock
                step(r, stack=stack_defs, blocks=blocks)

    try:
        run(top, [], [])
    except _Stop:
        pass
    if sim.unjudged_at is not None:
        sim.outcome = "unjudged"
    elif any(f[1] in ("cycle", "closing") for f in sim.fails):
        sim.outcome = "cycle"
        sim.cycle_in_watch = sim.steps[sim.fails[0][0]]["watch"]
    elif sim.fails:
        sim.outcome = "undefined"
    return sim


# ---------------------------------------------------------------------------------------------
# edits on records
# ---------------------------------------------------------------------------------------------

def _def_span(recs, i):
    j = i + 1
    while j < len(recs) and recs[j]["depth"] > recs[i]["depth"]:
        j += 1
    return i, j


def apply_edit(recs, ed: dict, k: int):
    """-> (new_recs, info) ; info = {kind (effective), def: id of the targeted Macro line or None}"""
    recs = copy.deepcopy(recs)
    def_idx = [i for i, r in enumerate(recs) if r["kind"] == "macro" and r["depth"] == 0]
    kind = ed["kind"]
    if kind == "comment" or not def_idx:
        recs.append({"id": "x%d" % k, "text": "# e%d" % k, "kind": "comment", "payload": None, "depth": 0, "name": None, "d": 0.0})
        return recs, {"kind": "comment", "def": None}
    i = def_idx[ed["def"] % len(def_idx)]
    lo, hi = _def_span(recs, i)
    target = recs[i]["id"]
    if kind == "chg-mark":
        marks = [j for j in range(lo + 1, hi) if recs[j]["kind"] == "mark"]
        if marks:
            j = marks[0]
            pl = "e%d" % k
            recs[j]["text"] = "    " * recs[j]["depth"] + "Mark: " + pl
            recs[j]["payload"] = pl
            return recs, {"kind": "chg-mark", "def": target}
        kind = "add-line"
    if kind == "del-line":
        # whitespace / comment lines are documented as insignificant for "the macro was modified": never the target
        direct = [j for j in range(lo + 1, hi) if recs[j]["depth"] == recs[i]["depth"] + 1 and recs[j]["kind"] not in ("blank", "comment")]
        if len(direct) >= 2:
            a, b = _def_span(recs, direct[-1])
            del recs[a:b]
            return recs, {"kind": "del-line", "def": target}
        kind = "add-line"
    if kind == "add-line":
        pl = "e%d" % k
        recs.insert(hi, {"id": "x%d" % k, "text": "    " * (recs[i]["depth"] + 1) + "Mark: " + pl, "kind": "mark", "payload": pl,
                         "depth": recs[i]["depth"] + 1, "name": None, "d": 0.0})
        return recs, {"kind": "add-line", "def": target}
    # remove-def
    del recs[lo:hi]
    return recs, {"kind": "remove-def", "def": target}
