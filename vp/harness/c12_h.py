"""C12 helper: one run of a generated method with cancel/force requests at generated ticks.

Wraps the shared EngineHarness (nothing in engine_h / pcode_gen is changed):
* an instance-attribute wrapper on `engine.registry.create_internal_command` logs ("icmd", name, instance_id) into
  h.events, so the start of a Pause/Hold command can be attributed to the run-log item (instance id) that caused it;
* requests go through `engine.cancel_instruction(instance_id=...)` / `engine.force_instruction(instance_id=...)`, the
  calls `EngineMessageHandlers.handle_cancelMsg/handle_forceMsg` make; like the handlers, any exception of the call is
  the rejection path (error reply) and is recorded, not raised;
* the target of a request is chosen from the *current* run log (`engine.tracking.get_runlog()`, what the engine sends to
  the aggregator): pool "all" = k-th item, "pending" = k-th item that has no end state yet, "hidden" = k-th instruction
  instance that is awaiting its threshold (such instances are not rendered in the run log; used for the statement's
  'forced threshold instruction' clause only, see c12.py), "later" = k-th pending item of a line that has already been
  executed before in this run (second call of a macro, second round of an Alarm body: an earlier instance of the same
  runtime record has an end state);
* per request the live `cancellable`/`forcible` property of the targeted node is recorded next to the run-log flag: it tells
  a stale offer (flags are snapshots taken when the last state was recorded) from a refusal of a request that the node
  itself would accept.

The run is recorded as a list of observation points (one after every request slot, one after every tick) so that two
runs of the same case can be compared point by point.
"""
from __future__ import annotations

from vp.harness import pcode_gen as G

CONCLUDED = ("completed", "failed", "cancelled")
UOD_KINDS = ("quick", "slow", "ova", "ovb", "set", "flow", "valve")
OPS = ("cancel", "force")
POOLS = ("all", "pending", "hidden", "later")


def group(kind: str | None) -> str:
    if kind in UOD_KINDS:
        return "uod"
    if kind in ("watch", "alarm", "wait", "pause", "hold", "block", "mark"):
        return kind  # type: ignore
    return "other"


def _norm_event(e):
    """event without tick number and without instance/run ids (ids are compared separately through the run log order)"""
    k = e[1]
    if k == "cmd":
        return (k, e[2], e[4], e[5], e[6])
    if k == "out_set":
        return (k, e[2], e[3], e[4])
    if k == "icmd":
        return (k, e[2])
    if k == "start":
        return (k,)
    return tuple(e[1:])


def _item(it) -> dict:
    return {"id": it.id, "name": it.name, "state": str(it.state), "C": bool(it.cancellable), "F": bool(it.forcible),
            "c": bool(it.cancelled), "f": bool(it.forced), "failed": bool(it.failed),
            "progress": None if it.progress is None else round(float(it.progress), 6),
            "start": round(float(it.start), 4), "end": None if it.end is None else round(float(it.end), 4)}


def _norm_item(d: dict):
    return (d["name"], d["state"], d["C"], d["F"], d["c"], d["f"], d["failed"], d["progress"], d["start"], d["end"])


class Run:
    def __init__(self):
        self.points: list[dict] = []      # observation points, aligned between twin runs
        self.reqs: list[dict] = []        # one record per request of the case (same order)
        self.ticks: list[dict] = []       # per tick: no, interp (interpreter ran), state, status, events, runlog
        self.events: list[tuple] = []
        self.lines: list = []


def execute(case: dict, lines: list, mask: list | None = None, probe: bool = False) -> Run:
    """mask[i] False = request i is not sent (twin run); None = all requests are sent.
    probe=True additionally records, per request slot, the instance ids each target pool would offer (generator aid)."""
    from vp.harness import engine_h as EH
    from openpectus.lang.exec.runlog import RuntimeRecordStateEnum as RS

    EH._uuid_counter[0] = 0     # instance ids of a run are a function of the case only
    h = EH.EngineHarness(G.as_method_lines(lines))
    e = h.engine
    orig_create = e.registry.create_internal_command

    def _create(name, instance_id):
        h.events.append((h.tick_no, "icmd", name, instance_id))
        return orig_create(name, instance_id)
    e.registry.create_internal_command = _create   # type: ignore

    by_id = {l.id: l for l in lines}
    run = Run()
    run.lines = lines
    ev_idx = [0]

    def runlog():
        """current run log as list of dicts, or the string 'RAISED:<type>' when it cannot be produced"""
        try:
            return [_item(it) for it in e.tracking.get_runlog().items]
        except Exception as ex:   # recorded as an observation ("run log cannot be produced"), judged by the oracle
            return "RAISED:%s" % type(ex).__name__

    def point(label, rl=None):
        new = h.events[ev_idx[0]:]
        ev_idx[0] = len(h.events)
        rl = runlog() if rl is None else rl
        p = {"label": label, "state": h.state, "status": str(h.tagv("Method Status")),
             "paused": bool(e._runstate_paused), "holding": bool(e._runstate_holding),
             "events": [_norm_event(x) for x in new], "raw_events": list(new),
             "rl": rl, "ev_end": len(h.events)}
        run.points.append(p)
        return p

    def hidden_candidates():
        out = []
        shown = set()
        rl = runlog()
        if isinstance(rl, list):
            shown = {d["id"] for d in rl}
        for r in e.tracking.records:
            last: dict = {}
            for s in r.states:
                last[s.instance_id] = s.state_name
            for iid, sn in last.items():
                if sn == RS.AwaitingThreshold and iid not in shown:
                    out.append({"id": iid, "name": r.name or "", "state": "awaiting_threshold", "C": False, "F": False,
                                "c": False, "f": False})
        return out

    def earlier_ended(iid) -> bool:
        """the line of this instance was executed before in this run: another instance of its record has an end state"""
        r = e.tracking.get_record_by_instance_id(iid)
        return r is not None and any(s.instance_id != iid and s.state_name in (RS.Completed, RS.Failed, RS.Cancelled) for s in r.states)

    def later_candidates(rl):
        return [d for d in rl if d["state"] not in CONCLUDED and earlier_ended(d["id"])]

    reqs = [list(r) for r in case["reqs"]]
    by_tick: dict = {}
    for i, r in enumerate(reqs):
        by_tick.setdefault(int(r[0]), []).append(i)
        run.reqs.append({"i": i, "tick": int(r[0]), "op": r[1], "k": int(r[2]), "pool": r[3], "applied": False, "skip": None})

    try:
        h.user("Start")
        for t in range(int(case["n"])):
            for i in by_tick.get(t, []):
                rec = run.reqs[i]
                rl = runlog()
                rec["point"] = len(run.points)
                rec["ev_start"] = len(h.events)
                if not isinstance(rl, list):
                    rec["skip"] = "runlog-unavailable"
                    point("req%d" % i, rl)
                    continue
                if rec["pool"] == "all":
                    cands = rl
                elif rec["pool"] == "pending":
                    cands = [d for d in rl if d["state"] not in CONCLUDED]
                elif rec["pool"] == "later":
                    cands = later_candidates(rl)
                else:
                    cands = hidden_candidates()
                if not cands:
                    rec["skip"] = "no-target"
                    point("req%d" % i, rl)
                    continue
                d = cands[rec["k"] % len(cands)]
                iid = d["id"]
                trec = e.tracking.get_record_by_instance_id(iid)
                line = by_id.get(trec.node_id) if trec is not None else None
                rec.update({
                    "iid": iid, "name": d["name"], "item": dict(d), "index": rl.index(d) if d in rl else None,
                    "line": line.id if line is not None else None, "kind": line.kind if line is not None else None,
                    "offered": None if rec["pool"] == "hidden" else bool(d["C"] if rec["op"] == "cancel" else d["F"]),
                    "status": "concluded" if d["state"] in CONCLUDED else "pending",
                    "state_before": h.state, "status_before": str(h.tagv("Method Status")),
                    "paused_before": bool(e._runstate_paused), "holding_before": bool(e._runstate_holding),
                    "cmd_started": e.tracking.get_command(iid) is not None,
                    "later_invocation": earlier_ended(iid),
                })
                node = e.tracking.get_known_node_by_id(trec.node_id) if trec is not None else None
                rec["live"] = None if node is None else bool(node.cancellable if rec["op"] == "cancel" else node.forcible)
                if mask is not None and not mask[i]:
                    rec["skip"] = "twin"
                    point("req%d" % i, rl)
                    continue
                try:
                    if rec["op"] == "cancel":
                        e.cancel_instruction(instance_id=iid)
                    else:
                        e.force_instruction(instance_id=iid)
                    rec["accepted"] = True
                except Exception as ex:   # the handlers' rejection path: error reply to the aggregator
                    rec["accepted"] = False
                    rec["exc"] = type(ex).__name__
                    rec["exc_msg"] = str(ex)[:160]
                rec["applied"] = True
                p = point("req%d" % i)
                rec["state_after"], rec["paused_after"], rec["holding_after"] = p["state"], p["paused"], p["holding"]
                rec["ev_end"] = len(h.events)
            slot = None
            if probe:
                rl0 = runlog()
                slot = {"all": [d["id"] for d in rl0] if isinstance(rl0, list) else [],
                        "pending": [d["id"] for d in rl0 if d["state"] not in CONCLUDED] if isinstance(rl0, list) else [],
                        "hidden": [d["id"] for d in hidden_candidates()],
                        "later": [d["id"] for d in later_candidates(rl0)] if isinstance(rl0, list) else []}
            vals = G.traj_at(case["traj"], t)
            if vals:
                h.set_inputs(**vals)
            interp = bool(e._runstate_started and not e._runstate_paused and not e._runstate_holding and not e._runstate_stopping)
            ev0 = len(h.events)
            o = h.tick()
            p = point("tick%d" % t)
            p["raised"] = type(o.raised).__name__ if o.raised is not None else None
            run.ticks.append({"t": t, "no": o.no, "interp": interp, "state": o.state, "status": o.status,
                              "events": h.events[ev0:], "rl": p["rl"], "ev_start": ev0, "ev_end": len(h.events),
                              "begun": _begun(h) if rec_hidden(run) else None, "slot": slot})
    finally:
        h.close()
    run.events = list(h.events)
    return run


def _begun(h) -> set:
    """ids of the method lines whose instruction has begun (started, executed or failed) per the reported method state"""
    ms = h.method_state()
    return set(ms.started_line_ids) | set(ms.executed_line_ids) | set(ms.failed_line_ids)


def rec_hidden(run: Run) -> bool:
    return any(r["pool"] == "hidden" for r in run.reqs)


def compare_points(a: dict, b: dict) -> str | None:
    """None when equal, else the name of the first differing component"""
    ra, rb = a["rl"], b["rl"]
    if isinstance(ra, str) != isinstance(rb, str) or (isinstance(ra, str) and ra != rb):
        return "runlog-unproducible" if isinstance(ra, str) else "runlog-producible-only-with-request"
    if a["events"] != b["events"] or a.get("raised") != b.get("raised"):
        return "effects-differ"
    if (a["state"], a["status"], a["paused"], a["holding"]) != (b["state"], b["status"], b["paused"], b["holding"]):
        return "state-differs"
    if isinstance(ra, list):
        na, nb = [_norm_item(d) for d in ra], [_norm_item(d) for d in rb]
        if na != nb:
            return "runlog-differs"
    return None
