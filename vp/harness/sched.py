"""Baton-passing two-thread scheduler on sys.settrace (serves C40).

Two real threads, "T" (ticking thread) and "R" (request thread), run under a baton: exactly one of
them is runnable at any time.  Pre-emption points are the `line` trace events of frames whose code
lives under a given path prefix (openpectus/*); every such event, in either thread, gets the next
index of ONE global event stream.  A schedule is a sorted list of indices into that stream: when
the running thread is about to execute the line with index s (s in the schedule) it hands the
baton to the other thread and waits until it comes back.  T starts; a thread that finishes hands
the baton over for good; a switch towards a finished thread is a no-op.

`BatonLock` stands in for a `threading.Lock` (engine._lock): a blocked acquire hands the baton to
the other thread instead of blocking the process, and takes the lock when the baton returns and the
lock is free.  A lock that can never be obtained (owner finished / self re-acquire) is recorded as
`deadlock` and the thread is unwound with a BaseException.

T runs on the calling thread (sys.settrace installed for the duration of the step and restored), R on
a persistent daemon thread of the process, so one schedule costs one OS wake-up per baton hand-over.

Everything is deterministic: the schedule, not the OS, decides who runs.  The same functions and
the same switch list always give the same interleaving (the event stream only depends on the code
paths taken).  Nothing of this touches the code under test.
"""
from __future__ import annotations

import gc
import os
import sys
import threading
from typing import Any, Callable

OTHER = {"T": "R", "R": "T"}


class SchedulerError(RuntimeError):
    """internal problem of the scheduler (hang, exception escaping a worker function) - a harness error"""


class _Abort(BaseException):
    """unwinds a worker thread (deadlock / hang); deliberately not an Exception so that the code under test cannot swallow it"""


class BatonLock:
    """Drop-in for threading.Lock().  Outside a scheduler run it is a plain non-blocking owner flag (single thread)."""

    def __init__(self):
        self.owner: str | None = None
        self.sched: "Baton | None" = None
        self.acquired = 0

    def acquire(self, blocking: bool = True, timeout: float = -1) -> bool:
        s = self.sched
        if s is None:
            if self.owner is not None:
                raise SchedulerError("BatonLock re-acquired outside a scheduler run (owner %r)" % self.owner)
            self.owner = "main"
            self.acquired += 1
            return True
        me = s.me()
        while self.owner is not None:
            if self.owner == me:
                s.deadlock = "%s re-acquires the non-reentrant lock it holds" % me
                raise _Abort()
            if not blocking:
                return False
            s.blocked_on_lock(me)
        self.owner = me
        self.acquired += 1
        return True

    def release(self) -> None:
        if self.owner is None:
            raise RuntimeError("release unlocked lock")
        self.owner = None

    def locked(self) -> bool:
        return self.owner is not None

    def __enter__(self):
        self.acquire()
        return True

    def __exit__(self, *a):
        self.release()
        return False


class Baton:
    """One interleaved execution of t_fn (thread T) and r_fn (thread R) under the schedule `switches`.

    phase_fn(frame) -> str   labels the position of thread T (called with T's current frame) when T is pre-empted,
                             and for every T event when profile=True (then `t_phases` holds one label per T event).
    call_fn(frame)           called for every function thread T enters (any file), e.g. to track which callee of the tick
                             is running without depending on the source text of the caller.
    """

    WAIT_S = 60.0

    def __init__(self, switches, prefix: str, phase_fn: Callable[[Any], str] | None = None, profile: bool = False,
                 max_events: int = 400_000, locks: tuple = (), call_fn: Callable[[Any], None] | None = None):
        sw = [int(s) for s in switches]
        if sw != sorted(sw) or any(s < 0 for s in sw):
            raise ValueError("switch positions must be a sorted list of non-negative ints")
        self.switches = sw
        self.prefix = prefix
        self.phase_fn = phase_fn
        self.profile = profile
        self.max_events = max_events
        self.locks = locks
        self.call_fn = call_fn                       # called with the new frame for every function entered by thread T
        self.n = 0                                   # next global event index
        self.count = {"T": 0, "R": 0}                # events per thread
        self._sw_i = 0
        self._next = sw[0] if sw else -1
        self._go: dict = {}                          # baton semaphores, set by run()
        self._r_finished = threading.Semaphore(0)
        self.done = {"T": False, "R": False}
        self.started = {"T": False, "R": False}
        self._ids: dict[int, str] = {}
        self.result: dict[str, Any] = {}
        self.error: dict[str, BaseException] = {}
        self.deadlock: str | None = None
        self.hung = False
        self.t_phase = "not-started"                 # label of T's position at its latest pre-emption
        self.t_phases: list[str] = []                # profile: label per T event
        self.t_locs: list[tuple] = []                # profile: (function name, its first line, line) per T event
        self.switch_log: list[dict] = []             # {"at": idx, "from": name, "t_phase": str, "effective": bool, "ran": int}
        self.lock_blocks: list[tuple] = []           # (thread, event index, t_phase)
        self.t_events_at_r_start: int | None = None
        self.r_mid_request_at_t_end = False          # R had started but not finished when T finished
        self._open: dict[str, dict | None] = {"T": None, "R": None}   # switch entry of a pre-empted thread until it resumes

    # -- identity -------------------------------------------------------------------------------
    def me(self) -> str:
        return self._ids[threading.get_ident()]

    # -- baton ----------------------------------------------------------------------------------
    def _handoff(self, me: str) -> None:
        other = OTHER[me]
        self._go[other].release()
        if not self._go[me].acquire(timeout=self.WAIT_S):
            self.hung = True
            raise _Abort()

    def _close_open_switch(self, resumed: str) -> None:
        o = self._open[resumed]
        if o is not None:
            o["ran"] = self.count[OTHER[resumed]] - o.pop("_other_before")
            self._open[resumed] = None

    def _switch(self, me: str, frame) -> None:
        idx = self.n - 1
        self._sw_i += 1
        self._next = self.switches[self._sw_i] if self._sw_i < len(self.switches) else -1
        if me == "T" and self.phase_fn is not None:
            self.t_phase = self.phase_fn(frame)
        other = OTHER[me]
        entry = {"at": idx, "from": me, "t_phase": self.t_phase, "effective": not self.done[other], "ran": 0}
        self.switch_log.append(entry)
        if self.done[other]:
            return
        if other == "R" and self.t_events_at_r_start is None:
            self.t_events_at_r_start = self.count["T"]
        entry["_other_before"] = self.count[other]
        self._open[me] = entry
        self._handoff(me)
        self._close_open_switch(me)

    def blocked_on_lock(self, me: str) -> None:
        other = OTHER[me]
        if self.done[other]:
            self.deadlock = "%s waits for a lock whose owner %s has finished" % (me, other)
            raise _Abort()
        self.lock_blocks.append((me, self.n, self.t_phase))
        self._handoff(me)

    # -- tracing --------------------------------------------------------------------------------
    def _tracer(self, name: str):
        prefix = self.prefix
        is_t = name == "T"
        profile = self.profile and is_t and self.phase_fn is not None

        def local(frame, event, arg):
            if event == "line":
                i = self.n
                self.n = i + 1
                self.count[name] += 1
                if profile:
                    self.t_phases.append(self.phase_fn(frame))
                    co = frame.f_code
                    self.t_locs.append((co.co_name, co.co_firstlineno, frame.f_lineno))
                if i == self._next:
                    self._switch(name, frame)
                elif i > self.max_events:
                    self.hung = True
                    raise _Abort()
            return local

        call_fn = self.call_fn if is_t else None

        def glob(frame, event, arg):
            if call_fn is not None:
                call_fn(frame)
            if frame.f_code.co_filename.startswith(prefix):
                return local
            return None

        return glob

    def _finish(self, name: str) -> None:
        self.done[name] = True
        for lk in self.locks:
            if lk.owner == name:         # only after an abort; a normal `with` has released it
                lk.owner = None

    def _body_r(self, fn: Callable[[], Any]) -> None:
        """runs on the persistent request thread once the baton is first handed to R"""
        try:
            self.started["R"] = True
            if self.t_events_at_r_start is None:
                self.t_events_at_r_start = self.count["T"]
            sys.settrace(self._tracer("R"))
            try:
                self.result["R"] = fn()
            finally:
                sys.settrace(None)
        except _Abort:
            pass
        except BaseException as ex:      # not swallowed: re-raised by run() in the caller's thread as SchedulerError
            self.error["R"] = ex
        finally:
            self._finish("R")
            if not self.done["T"]:
                self._go["T"].release()
            self._r_finished.release()

    def run(self, t_fn: Callable[[], Any], r_fn: Callable[[], Any]) -> "Baton":
        """T runs on the calling thread, R on a persistent worker thread (fewer OS wake-ups per schedule than two fresh
        threads: one per baton hand-over)."""
        for lk in self.locks:
            if lk.owner is not None:
                raise SchedulerError("lock held at the start of an interleaved step")
        w = _worker()
        self._go = {"T": threading.Semaphore(0), "R": w.sem}
        self._r_finished = threading.Semaphore(0)
        self._ids = {threading.get_ident(): "T", w.thread.ident: "R"}
        for lk in self.locks:
            lk.sched = self
        w.job = lambda: self._body_r(r_fn)
        old_trace = sys.gettrace()
        ok = False
        # no cyclic garbage collection while lines are being counted: finalisers of earlier engines (generators of dead
        # interpreters run their `finally` blocks in openpectus code) would otherwise show up in the event stream at
        # allocation-dependent positions and make switch indices depend on the history of the process
        gc_was_enabled = gc.isenabled()
        gc.disable()
        try:
            self.started["T"] = True
            try:
                sys.settrace(self._tracer("T"))
                try:
                    self.result["T"] = t_fn()
                finally:
                    sys.settrace(old_trace)
            except _Abort:
                pass
            self._finish("T")
            self.r_mid_request_at_t_end = self.started["R"] and not self.done["R"]
            if not self.done["R"]:
                self._go["R"].release()          # R starts, or resumes, and runs to its end
            ok = self._r_finished.acquire(timeout=self.WAIT_S * 2)
        finally:
            if not ok:
                _discard_worker(w)               # the request thread is stuck or in an unknown state: never reuse it
            for lk in self.locks:
                lk.sched = None
            if gc_was_enabled:
                gc.enable()
        if not ok or self.hung:
            raise SchedulerError("scheduler hang (events=%d, switches=%r)" % (self.n, self.switches))
        if self.error:
            name, ex = sorted(self.error.items())[0]
            raise SchedulerError("exception escaped worker %s: %r" % (name, ex)) from ex
        self._close_open_switch("T")
        self._close_open_switch("R")
        for e in self.switch_log:
            e.pop("_other_before", None)
        return self


class _Worker:
    """the persistent request thread of this process; woken by the first hand-over of the baton to R"""

    def __init__(self):
        self.pid = os.getpid()
        self.sem = threading.Semaphore(0)
        self.job: Callable[[], Any] | None = None
        self.dead = False
        self.thread = threading.Thread(target=self._loop, name="baton-R", daemon=True)
        self.thread.start()

    def _loop(self):
        while not self.dead:
            self.sem.acquire()
            job, self.job = self.job, None
            if job is not None:
                job()
            del job      # do not keep the finished step (engine, interpreter generators) alive into the next one


_the_worker: list = [None]


def _worker() -> _Worker:
    w = _the_worker[0]
    if w is None or w.dead or w.pid != os.getpid() or not w.thread.is_alive():
        w = _the_worker[0] = _Worker()
    return w


def _discard_worker(w: _Worker) -> None:
    w.dead = True
    if _the_worker[0] is w:
        _the_worker[0] = None


__all__ = ["Baton", "BatonLock", "SchedulerError"]
