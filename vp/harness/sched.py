"""Baton-passing two-thread scheduler on sys.settrace (serves C40).

Two real threads, "T" (ticking thread) and "R" (request thread), run under a baton: exactly one of
them is runnable at any time.  Pre-emption points are the `line` trace events of frames whose code
lives under a given path prefix (openpectus/*); every such event, in either thread, gets the next
index of ONE global event stream.  A schedule is a sorted list of indices into that stream: when
the running thread is about to execute the line with index s (s in the schedule) it hands the
baton to the other thread and waits until it comes back.  T starts; a thread that finishes hands
the baton over for good; a switch towards a finished thread is a no-op.

Locks.  `BatonLock` / `BatonRLock` stand in for `threading.Lock` / `threading.RLock`: a blocked
acquire hands the baton to the other thread instead of blocking the process, and takes the lock when
the baton returns and the lock is free.  `patch_lock_factories(package)` replaces the names `Lock`,
`RLock` and `threading` in every loaded module of the package under test, so that EVERY lock the
code under test creates - also one added by a later change, e.g. inside a collaborator that is
re-created during a run - is a baton lock (a real lock held by the parked thread would block the
running thread for good).  A lock that can never be obtained (owner finished, self re-acquire of a
non-reentrant lock, both threads waiting for each other) is recorded as `deadlock` and the waiting
thread is unwound with a BaseException; the locks it holds are released so the other one can end.

No wait is unbounded.  T and R run on two persistent daemon threads of the process; the calling
thread only waits for the step, at most STEP_LIMIT_S seconds of real time.  If the step does not end
(a thread blocks on something the scheduler does not model) `SchedulerHang` is raised, the two worker
threads are abandoned (never reused) and fresh ones serve the next step.  `run_bounded(fn, limit)`
runs any callable on a daemon thread with the same guarantee.

Everything is deterministic: the schedule, not the OS, decides who runs.  The same functions and
the same switch list always give the same interleaving (the event stream only depends on the code
paths taken; cyclic garbage collection is off while lines are counted).  Nothing of this touches
the code under test.
"""
from __future__ import annotations

import gc
import os
import sys
import threading
import types
from typing import Any, Callable

OTHER = {"T": "R", "R": "T"}
_REAL_LOCK = threading.Lock
_REAL_RLOCK = threading.RLock


class SchedulerError(RuntimeError):
    """internal problem of the scheduler (exception escaping a worker function ...) - a harness error"""


class SchedulerHang(SchedulerError):
    """a step (or a bounded call) did not end within its real-time limit: the schedule could not be realised"""


class _Abort(BaseException):
    """unwinds a worker thread (deadlock / hang); deliberately not an Exception so that the code under test cannot swallow it"""


_CURRENT: list = [None]          # the Baton whose step is running in this process (one at a time)


def _role():
    """-> (running Baton, 'T'|'R') for a thread that takes part in the running step, else (None, 'main')"""
    s = _CURRENT[0]
    if s is not None:
        r = s._ids.get(threading.get_ident())
        if r is not None:
            return s, r
    return None, "main"


class BatonLock:
    """Drop-in for threading.Lock().  Outside a scheduler step it is a plain owner flag (single thread)."""

    reentrant = False

    def __init__(self):
        self.owner: str | None = None
        self.depth = 0
        self.acquired = 0

    def acquire(self, blocking: bool = True, timeout: float = -1) -> bool:
        s, me = _role()
        while self.owner is not None:
            if self.owner == me:
                if self.reentrant:
                    self.depth += 1
                    return True
                if s is None:
                    raise SchedulerError("non-reentrant lock re-acquired by the thread that holds it, outside a scheduler step")
                s.deadlock = "%s re-acquires the non-reentrant lock it holds" % me
                raise _Abort()
            if not blocking:
                return False
            if s is None:
                raise SchedulerError("lock owned by %r requested by %r outside a scheduler step" % (self.owner, me))
            s.blocked_on_lock(me, self)
        self.owner = me
        self.depth = 1
        self.acquired += 1
        if s is not None:
            s.touched.add(self)
        return True

    def release(self) -> None:
        if self.owner is None:
            raise RuntimeError("release unlocked lock")
        self.depth -= 1
        if self.depth <= 0:
            self.owner = None
            self.depth = 0

    def locked(self) -> bool:
        return self.owner is not None

    def __enter__(self):
        self.acquire()
        return True

    def __exit__(self, *a):
        self.release()
        return False

    # used by threading.Condition if the code under test wraps the lock in one (not modelled further)
    def _is_owned(self):
        return self.owner == _role()[1]


class BatonRLock(BatonLock):
    reentrant = True


class _ThreadingProxy(types.ModuleType):
    """`threading` as seen by a module of the package under test: Lock / RLock are baton locks, the rest is the real module"""

    def __init__(self):
        super().__init__("threading")
        self.Lock = BatonLock
        self.RLock = BatonRLock

    def __getattr__(self, name):
        return getattr(threading, name)


_THREADING_PROXY = _ThreadingProxy()
_patch_state = {"n_modules": -1}


def patch_lock_factories(package: str) -> int:
    """Replace the names Lock / RLock / threading in all loaded modules of `package` (cheap; call again after imports)."""
    if _patch_state["n_modules"] == len(sys.modules):
        return 0
    n = 0
    for name, mod in list(sys.modules.items()):
        if mod is None or not (name == package or name.startswith(package + ".")):
            continue
        d = getattr(mod, "__dict__", None)
        if d is None:
            continue
        for k, v in list(d.items()):
            if v is _REAL_LOCK:
                d[k] = BatonLock
                n += 1
            elif v is _REAL_RLOCK:
                d[k] = BatonRLock
                n += 1
            elif v is threading:
                d[k] = _THREADING_PROXY
                n += 1
    _patch_state["n_modules"] = len(sys.modules)
    return n


class Baton:
    """One interleaved execution of t_fn (thread T) and r_fn (thread R) under the schedule `switches`.

    phase_fn(frame) -> str   labels the position of thread T (called with T's current frame) when T is pre-empted,
                             and for every T event when profile=True (then `t_phases` holds one label per T event).
    call_fn(frame)           called for every function thread T enters (any file), e.g. to track which callee of the tick
                             is running without depending on the source text of the caller.
    """

    WAIT_S = 30.0          # a parked thread waits at most this long for the baton
    STEP_LIMIT_S = 60.0    # the caller waits at most this long for the whole step

    def __init__(self, switches, prefix: str, phase_fn: Callable[[Any], str] | None = None, profile: bool = False,
                 max_events: int = 400_000, locks: tuple = (), call_fn: Callable[[Any], None] | None = None):
        sw = [int(s) for s in switches]
        if sw != sorted(sw) or any(s < 0 for s in sw):
            raise ValueError("switch positions must be a sorted list of non-negative ints")
        self.switches = sw
        self.prefix = prefix
        self.phase_fn = phase_fn
        self.profile = profile
        self.max_events = max_events
        self.touched: set = set(locks)               # baton locks acquired during the step (released after an abort)
        self.call_fn = call_fn
        self.n = 0                                   # next global event index
        self.count = {"T": 0, "R": 0}                # events per thread
        self._sw_i = 0
        self._next = sw[0] if sw else -1
        self._go: dict = {}                          # baton semaphores, set by run()
        self._all_done = threading.Semaphore(0)
        self.done = {"T": False, "R": False}
        self.started = {"T": False, "R": False}
        self.waiting: dict = {"T": None, "R": None}  # lock a thread is blocked on
        self._ids: dict[int, str] = {}
        self.result: dict[str, Any] = {}
        self.error: dict[str, BaseException] = {}
        self.deadlock: str | None = None
        self.hung = False
        self.t_phase = "not-started"                 # label of T's position at its latest pre-emption
        self.t_phases: list[str] = []                # profile: label per T event
        self.t_locs: list[tuple] = []                # profile: (function name, its first line, line) per T event
        self.switch_log: list[dict] = []             # {"at": idx, "from": name, "t_phase": str, "effective": bool, "ran": int}
        self.lock_blocks: list[tuple] = []           # (thread, event index, t_phase)
        self.t_events_at_r_start: int | None = None
        self.r_mid_request_at_t_end = False          # R had started but not finished when T finished
        self._open: dict[str, dict | None] = {"T": None, "R": None}   # switch entry of a pre-empted thread until it resumes

    # -- identity -------------------------------------------------------------------------------
    def me(self) -> str:
        return self._ids.get(threading.get_ident(), "main")

    # -- baton ----------------------------------------------------------------------------------
    def _handoff(self, me: str) -> None:
        other = OTHER[me]
        self._go[other].release()
        if not self._go[me].acquire(timeout=self.WAIT_S):
            self.hung = True
            raise _Abort()

    def _close_open_switch(self, resumed: str) -> None:
        o = self._open[resumed]
        if o is not None:
            o["ran"] = self.count[OTHER[resumed]] - o.pop("_other_before")
            self._open[resumed] = None

    def _switch(self, me: str, frame) -> None:
        idx = self.n - 1
        self._sw_i += 1
        self._next = self.switches[self._sw_i] if self._sw_i < len(self.switches) else -1
        if me == "T" and self.phase_fn is not None:
            self.t_phase = self.phase_fn(frame)
        other = OTHER[me]
        entry = {"at": idx, "from": me, "t_phase": self.t_phase, "effective": not self.done[other], "ran": 0}
        self.switch_log.append(entry)
        if self.done[other]:
            return
        if other == "R" and self.t_events_at_r_start is None:
            self.t_events_at_r_start = self.count["T"]
        entry["_other_before"] = self.count[other]
        self._open[me] = entry
        self._handoff(me)
        self._close_open_switch(me)

    def blocked_on_lock(self, me: str, lock=None) -> None:
        other = OTHER[me]
        if self.done[other]:
            self.deadlock = "%s waits for a lock whose owner %s has finished" % (me, other)
            raise _Abort()
        if self.waiting[other] is not None:
            self.deadlock = "%s and %s wait for locks held by each other" % (me, other)
            raise _Abort()
        if me == "T" and self.phase_fn is not None:
            self.t_phase = self.phase_fn(None)
        self.lock_blocks.append((me, self.n, self.t_phase))
        self.waiting[me] = lock
        try:
            self._handoff(me)
        finally:
            self.waiting[me] = None

    # -- tracing --------------------------------------------------------------------------------
    def _tracer(self, name: str):
        prefix = self.prefix
        is_t = name == "T"
        profile = self.profile and is_t and self.phase_fn is not None

        def local(frame, event, arg):
            if event == "line":
                i = self.n
                self.n = i + 1
                self.count[name] += 1
                if profile:
                    self.t_phases.append(self.phase_fn(frame))
                    co = frame.f_code
                    self.t_locs.append((co.co_name, co.co_firstlineno, frame.f_lineno))
                if i == self._next:
                    self._switch(name, frame)
                elif i > self.max_events:
                    self.hung = True
                    raise _Abort()
            return local

        call_fn = self.call_fn if is_t else None

        def glob(frame, event, arg):
            if call_fn is not None:
                call_fn(frame)
            if frame.f_code.co_filename.startswith(prefix):
                return local
            return None

        return glob

    def _body(self, name: str, fn: Callable[[], Any]) -> None:
        """runs on the persistent worker thread of `name` once the baton is first handed to it"""
        other = OTHER[name]
        try:
            self.started[name] = True
            if name == "R" and self.t_events_at_r_start is None:
                self.t_events_at_r_start = self.count["T"]
            sys.settrace(self._tracer(name))
            try:
                self.result[name] = fn()
            finally:
                sys.settrace(None)
        except _Abort:
            pass
        except BaseException as ex:      # not swallowed: re-raised by run() in the caller's thread as SchedulerError
            self.error[name] = ex
        finally:
            self.done[name] = True
            for lk in list(self.touched):
                if lk.owner == name:     # only after an abort; a normal `with` has released it
                    lk.owner, lk.depth = None, 0
            if name == "T":
                self.r_mid_request_at_t_end = self.started["R"] and not self.done["R"]
            if not self.done[other]:
                self._go[other].release()        # the other one starts, or resumes, and runs to its end
            else:
                self._all_done.release()

    def run(self, t_fn: Callable[[], Any], r_fn: Callable[[], Any]) -> "Baton":
        if _CURRENT[0] is not None:
            raise SchedulerError("a scheduler step is already running in this process")
        for lk in self.touched:
            if lk.owner is not None:
                raise SchedulerError("lock held at the start of an interleaved step")
        wt, wr = _worker("T"), _worker("R")
        self._go = {"T": wt.sem, "R": wr.sem}
        self._ids = {wt.thread.ident: "T", wr.thread.ident: "R"}
        wt.job = lambda: self._body("T", t_fn)
        wr.job = lambda: self._body("R", r_fn)
        ok = False
        # no cyclic garbage collection while lines are being counted: finalisers of earlier engines (generators of dead
        # interpreters run their `finally` blocks in openpectus code) would otherwise show up in the event stream at
        # allocation-dependent positions and make switch indices depend on the history of the process
        gc_was_enabled = gc.isenabled()
        gc.disable()
        _CURRENT[0] = self
        try:
            self._go["T"].release()
            ok = self._all_done.acquire(timeout=self.STEP_LIMIT_S)
        finally:
            _CURRENT[0] = None
            if not ok:
                _discard_worker(wt)              # stuck or in an unknown state: never reused
                _discard_worker(wr)
            if gc_was_enabled:
                gc.enable()
        if not ok:
            raise SchedulerHang("the interleaved step did not end within %.0f s (events=%d, switches=%r, started=%r, done=%r)"
                                % (self.STEP_LIMIT_S, self.n, self.switches, self.started, self.done))
        if self.hung:
            _discard_worker(wt)
            _discard_worker(wr)
            raise SchedulerHang("a parked thread did not get the baton back (events=%d, switches=%r)" % (self.n, self.switches))
        if self.error:
            name, ex = sorted(self.error.items())[0]
            raise SchedulerError("exception escaped worker %s: %r" % (name, ex)) from ex
        self._close_open_switch("T")
        self._close_open_switch("R")
        for e in self.switch_log:
            e.pop("_other_before", None)
        return self


class _Worker:
    """a persistent worker thread of this process; woken by the first hand-over of the baton to its role"""

    def __init__(self, role: str):
        self.pid = os.getpid()
        self.role = role
        self.sem = threading.Semaphore(0)
        self.job: Callable[[], Any] | None = None
        self.dead = False
        self.thread = threading.Thread(target=self._loop, name="baton-" + role, daemon=True)
        self.thread.start()

    def _loop(self):
        while not self.dead:
            self.sem.acquire()
            job, self.job = self.job, None
            if job is not None:
                job()
            del job      # do not keep the finished step (engine, interpreter generators) alive into the next one


_the_workers: dict = {"T": None, "R": None}


def _worker(role: str) -> _Worker:
    w = _the_workers[role]
    if w is None or w.dead or w.pid != os.getpid() or not w.thread.is_alive():
        w = _the_workers[role] = _Worker(role)
    return w


def _discard_worker(w: _Worker) -> None:
    w.dead = True
    if _the_workers[w.role] is w:
        _the_workers[w.role] = None


def run_bounded(fn: Callable[[], Any], limit_s: float, what: str = "call") -> Any:
    """fn() on a daemon thread; SchedulerHang if it has not returned after limit_s seconds of real time (the thread is
    abandoned).  An exception of fn is re-raised in the caller."""
    box: dict = {}

    def target():
        try:
            box["v"] = fn()
        except BaseException as ex:      # handed to the caller, not swallowed
            box["ex"] = ex

    t = threading.Thread(target=target, name="bounded-" + what, daemon=True)
    t.start()
    t.join(limit_s)
    if t.is_alive():
        raise SchedulerHang("%s did not return within %.0f s" % (what, limit_s))
    if "ex" in box:
        raise box["ex"]
    return box.get("v")


__all__ = ["Baton", "BatonLock", "BatonRLock", "SchedulerError", "SchedulerHang", "patch_lock_factories", "run_bounded"]
