"""Shared helper of C02 and C05: program strategy, trace runner and trace monitors over EngineHarness events.

Nothing here edits /repo or the shared harness modules.  Two run-time hooks are added from the outside:

* `Tracking._add_record_state` (class attribute, wrapped once per process): every run-log state the
  interpreter / engine records (created, started, completed ...) is also appended to the current harness'
  event list as (tick, "rt", node_id, state, instance_id) -- the "run log states with tick numbers" in
  the global order in which they were recorded;
* `engine.schedule_execution` (instance attribute): (tick, "sched", name, args, instance_id) -- the moment the
  interpreter issues a command (the engine starts the command later in the same tick).

Vocabulary used by the monitors
  line      one rendered method line (pcode_gen.Line); node id == line id
  start     log channel "L": run-log state `started` of the line (commands: the interpreter's schedule call;
            Watch/Alarm: their registration = listener event scope_start);
            effect channel "E": Mark assignment, first exec call of a UOD command instance, listener
            block_start, Notify event -- each mapped to its line by the unique payload
  container Block / Watch / Alarm / Macro line; its *invocation counter* counts block_start events,
            registrations (scope_start), activations (scope_activate, Alarm) and started `Call macro`s
  visit     run-log state `created` (the interpreter begins to visit the line; method state reports it started)
"""
from __future__ import annotations

from hypothesis import strategies as st

from vp.harness import pcode_gen as G

WS = ("blank", "comment")
COMMANDS = ("quick", "slow", "ova", "ovb", "set", "flow", "info")
INTERRUPTS = ("watch", "alarm")
CONTAINERS = ("block", "watch", "alarm", "macro")
# kinds whose run-log `completed` state the successor has to wait for (the language defines them as finished then)
COMPLETING = ("mark", "block", "callmacro", "endblock", "endblocks", "macro", "base", "notify")
ALLOWED_KINDS = set(WS) | set(COMMANDS) | set(CONTAINERS) | {"mark", "wait", "notify", "callmacro", "endblock", "endblocks", "base"}

_SINK: list = [None]


def install_hooks():
    from openpectus.lang.exec.tracking import Tracking
    if getattr(Tracking, "_verif_order_hook", False):
        return
    orig = Tracking._add_record_state

    def _add_record_state(self, instance_id, record, state, command=None):
        r = orig(self, instance_id, record, state, command)
        h = _SINK[0]
        if h is not None:
            h.events.append((h.tick_no, "rt", record.node_id, str(state), instance_id))
        return r

    Tracking._add_record_state = _add_record_state   # type: ignore
    Tracking._verif_order_hook = True                # type: ignore


# ---------------------------------------------------------------------------------------------
# program strategy: pcode_gen trees + unterminated blocks (ended from a Watch, by End blocks, or never)
# ---------------------------------------------------------------------------------------------

WSI_1_IN = 3            # a blank/comment line gets its own (not the scope's) indentation in 1 of 3 cases
WS_AFTER_OPENER_1_IN = 4  # a scope opener is followed by blank/comment lines before its body in 1 of 4 cases
BLOCK_IN_REPEATED_1_IN = 6   # 1 of 6 programs gets a Block inside an Alarm body / inside a macro that is then called 2-3 times
RERUN_1_IN = 5          # 1 of 5 cases (without append follow-up) runs the method a second time after Restart / Stop + Start
LATE_TRUE_1_IN = 5      # 1 of 5 Watch/Alarm conditions is false at the start and becomes true at a generated tick
CUT_SHORT_1_IN = 7      # 1 of 7 programs with a macro gets the shape "call cut short by End block, macro called again"


def render(tree: dict):
    """pcode_gen.render plus free indentation of blank/comment lines: node field `wsi` = number of leading spaces
    (0 = empty line / comment at column 0; never more than the indentation of the scope body the line sits in).
    Everything else -- ids, kinds, payloads, depth and parent of the REFERENCE tree -- is pcode_gen's."""
    lines = G.render(tree)
    for l in lines:
        if l.kind in WS and l.node is not None and l.node.get("wsi") is not None:
            body = l.text.strip()
            l.text = " " * int(l.node["wsi"]) + body
    return lines


@st.composite
def program(draw, cfg: G.GenCfg, open_block_1_in: int = 4, force_trailing_1_in: int = 6, open_block_interrupt: bool = True):
    tree = draw(G.program(cfg))

    def ws_node(depth_of_line, shallow_only=False):
        """a blank/comment node; indentation: the scope's own (pcode_gen default) or any smaller one, 0 included"""
        k = draw(st.sampled_from(["blank", "comment"]))
        n = {"k": k, "t": None}
        if shallow_only or draw(st.integers(1, WSI_1_IN)) == 1:
            top = max(0, depth_of_line - 1) if shallow_only else depth_of_line
            choices = [0] + [4 * i for i in range(1, top + 1)] + ([2] if k == "blank" and top >= 1 else [])
            n["wsi"] = draw(st.sampled_from(choices))
        return n

    def walk(nodes, in_block, depth):
        for i, n in enumerate(nodes):
            if n["k"] in WS:
                nodes[i] = dict(ws_node(depth), k=n["k"])
                continue
            if n["k"] == "block":
                if draw(st.integers(1, open_block_1_in)) == 1:
                    n["end"] = None          # no terminator of its own
                    n["end_t"] = None
                    # give it a chance to be ended from an interrupt declared in its body
                    if open_block_interrupt and draw(st.integers(0, 1)) == 1:
                        w = {"k": "watch", "t": None, "cond": draw(G.condition(cfg)),
                             "c": [{"k": "mark", "t": None},
                                   {"k": draw(st.sampled_from(["endblock", "endblock", "endblocks"])), "t": None}]}
                        n["c"].insert(draw(st.integers(0, len(n["c"]))), w)
            if "c" in n:
                walk(n["c"], (in_block or n["k"] == "block") and n["k"] != "macro", depth + 1)
                if n["k"] in CONTAINERS and draw(st.integers(1, WS_AFTER_OPENER_1_IN)) == 1:
                    # blank/comment lines between the opener and its body -- an ordinary, well-formed method;
                    # at least one of them less indented than the body (empty line, comment further left)
                    extra = [ws_node(depth + 1, shallow_only=True)]
                    if draw(st.booleans()):
                        extra.append(ws_node(depth + 1))
                    n["c"][0:0] = extra
    walk(tree["body"], False, 0)
    # "a macro call cut short by End block, the macro called again later" -- an ordinary method, rare by chance
    macros = [n for n in tree["body"] if n["k"] == "macro"]
    if macros and draw(st.integers(1, CUT_SHORT_1_IN)) == 1:
        m = draw(st.sampled_from(macros))
        if open_block_interrupt:
            ender = {"k": "watch", "t": None, "cond": draw(G.condition(cfg)), "cut_short": True,
                     "c": [{"k": draw(st.sampled_from(["endblock", "endblock", "endblocks"])), "t": None}]}
            blk = {"k": "block", "t": None, "end": None, "end_t": None,
                   "c": [ender, {"k": "callmacro", "t": None, "name": m["name"]}, {"k": "mark", "t": None}]}
            if draw(st.booleans()):
                blk["c"].insert(1, {"k": "mark", "t": None})
            tree["body"].extend([blk, {"k": "callmacro", "t": None, "name": m["name"]}, {"k": "mark", "t": None}])
    # "a Block (with its End block) inside a body that runs repeatedly" -- Alarm body raised several times, macro called
    # 2-3 times -- ordinary methods that are rare by chance (the Alarm has to re-arm, the macro to be called again)
    if draw(st.integers(1, BLOCK_IN_REPEATED_1_IN)) == 1:
        def blk():
            b = {"k": "block", "t": None, "end": draw(st.sampled_from(["endblock", "endblock", "endblocks"])), "end_t": None,
                 "c": [{"k": draw(st.sampled_from(["mark", "mark", "quick", "wait"])), "t": None}]}
            if b["c"][0]["k"] == "wait":
                b["c"][0]["d"] = draw(st.sampled_from([0.1, 0.2, 0.3]))
            return b
        if not open_block_interrupt or draw(st.booleans()):
            if macros and draw(st.booleans()):
                m = draw(st.sampled_from(macros))
                m["c"].insert(draw(st.integers(0, len(m["c"]))), blk())
            else:
                m = {"k": "macro", "t": None, "name": "M%d" % (len(macros) + 1),
                     "c": [{"k": "mark", "t": None}, blk(), {"k": "mark", "t": None}]}
                tree["body"].insert(0, m)
                macros.append(m)
            for _ in range(draw(st.integers(2, 3))):
                tree["body"].extend([{"k": "callmacro", "t": None, "name": m["name"]}, {"k": "mark", "t": None}])
        elif open_block_interrupt:
            body = [{"k": "mark", "t": None}, blk(), {"k": "mark", "t": None}]
            if draw(st.booleans()):
                body.pop(0)
            tree["body"].insert(draw(st.integers(0, len(tree["body"]))),
                                {"k": "alarm", "t": None, "cond": draw(G.condition(cfg)), "cut_short": True, "c": body})
    _fix_bodies(tree["body"])
    if draw(st.integers(1, force_trailing_1_in)) == 1:
        # blank/comment lines at the very end of the method (possibly inside the last open scope)
        tgt = tree["body"]
        d = 0
        while tgt and tgt[-1]["k"] in CONTAINERS and not tgt[-1].get("end") and draw(st.booleans()):
            tgt = tgt[-1].setdefault("c", [])
            d += 1
        for _ in range(draw(st.integers(1, 2))):
            tgt.append(ws_node(d))
    return tree


# Known finding (C02 `interrupt-in-repeated-body:once-and-in-order`, C05 `interrupt-in-repeated-body:block-bookkeeping`):
# a Watch/Alarm declared inside an Alarm or Macro body misbehaves as soon as that body runs again.  It would be the first
# violation in 5-10 % of the cases and hide everything after it, so it is excluded by construction in 7 of 8 cases (the
# nested interrupt is replaced by a Mark; counted as class excluded_known:interrupt-in-repeated-body) and kept in 1 of 8.
EXCLUDE_KNOWN_INTERRUPT_IN_REPEATED_BODY = True
KEEP_NESTED_1_IN = 8


def _strip_nested_interrupts(nodes, in_repeated: bool) -> int:
    n_rep = 0
    for i, n in enumerate(nodes):
        if n["k"] in INTERRUPTS and in_repeated:
            nodes[i] = {"k": "mark", "t": None}
            n_rep += 1
            continue
        if "c" in n:
            n_rep += _strip_nested_interrupts(n["c"], in_repeated or n["k"] in ("alarm", "macro"))
    return n_rep


def _fix_bodies(nodes):
    """Every scope opener has an instruction in its indented body (possibly after blank/comment lines).  An opener
    without any body instruction is the C17 subject `empty-body-opener-captures-next-line`, not ours."""
    for n in nodes:
        if n["k"] in CONTAINERS:
            c = n.setdefault("c", [])
            if not n.get("end") and not any(x["k"] not in WS for x in c):
                c.append({"k": "mark", "t": None})
            _fix_bodies(c)


@st.composite
def cases(draw, cfg: G.GenCfg, ticks: int, append_1_in: int = 5, keep_nested: bool = True):
    append = draw(st.integers(1, append_1_in)) == 1
    if append:
        # the append follow-up is defined for interrupt-free methods only (see append_position)
        import dataclasses
        kinds = {k: w for k, w in cfg.kinds.items() if k not in INTERRUPTS}
        tree = draw(program(dataclasses.replace(cfg, kinds=kinds), force_trailing_1_in=1, open_block_interrupt=False))
    else:
        tree = draw(program(cfg))
    excluded = 0
    if EXCLUDE_KNOWN_INTERRUPT_IN_REPEATED_BODY and (draw(st.integers(1, KEEP_NESTED_1_IN)) != 1 or not keep_nested):
        excluded = _strip_nested_interrupts(tree["body"], False)
        _fix_bodies(tree["body"])
    traj = draw(G.trajectory(ticks, max_changes=8))
    # start values of the inputs (so that conditions can be true from the first tick)
    init = {t: float(draw(st.sampled_from([0, 0, 1, 3, 5, 9]))) for t in ("In1", "In2", "Temp")}
    # half of the Watch/Alarm conditions are rewritten to hold for the start value of their tag (in the tag's own unit),
    # so that interrupt bodies run in a useful fraction of the cases; the trajectory may still switch them off and on
    def likely(nodes):
        for n in nodes:
            if n["k"] in INTERRUPTS and not n.get("cut_short") and draw(st.integers(1, LATE_TRUE_1_IN)) == 1:
                # false at the start values, true from a generated tick on: the interrupt is still pending while other
                # threads execute End block(s) and must run afterwards
                tag = n["cond"]["tag"]
                n["cond"] = {"tag": tag, "op": ">=", "unit": G.UNITS_FOR[tag][0], "val": int(init[tag]) + 2}
                traj.append([draw(st.integers(8, max(9, ticks // 2))), {tag: float(int(init[tag]) + 3)}])
                traj.sort(key=lambda p_: p_[0])
            elif n["k"] in INTERRUPTS and (n.get("cut_short") or draw(st.booleans())):
                tag = n["cond"]["tag"]
                n["cond"] = {"tag": tag, "op": draw(st.sampled_from(["=", "<=", ">=", "<", ">"])), "unit": G.UNITS_FOR[tag][0],
                             "val": int(init[tag])}
                if n["cond"]["op"] == "<":
                    n["cond"]["val"] += 1
                elif n["cond"]["op"] == ">":
                    n["cond"]["val"] = max(0, n["cond"]["val"] - 1)
            if "c" in n:
                likely(n["c"])
    likely(tree["body"])
    rerun = None
    if not append and draw(st.integers(1, RERUN_1_IN)) == 1:
        # a second run of the same method on the same engine (no method save in between): Restart or Stop + Start, either
        # after the method had all its ticks or somewhere in the middle of the run
        rerun = {"how": draw(st.sampled_from(["restart", "stop-start"])),
                 "at": ticks if draw(st.booleans()) else draw(st.integers(3, ticks))}
    return {"tree": tree, "traj": traj, "init": init, "ticks": ticks, "append": append, "excluded_nested": excluded, "rerun": rerun}


def valid_case(case) -> bool:
    """domain guard for replay / shrinking: a renderable tree over the allowed kinds, well-formed schedule"""
    try:
        if not isinstance(case, dict) or not isinstance(case.get("tree"), dict):
            return False
        if not isinstance(case.get("ticks"), int) or not (1 <= case["ticks"] <= 2000):
            return False
        lines = render(case["tree"])
        if not lines or any(l.kind not in ALLOWED_KINDS for l in lines):
            return False
        if case["tree"].get("base") != "s":
            return False
        for i, l in enumerate(lines):
            if l.kind in CONTAINERS:
                nxt = next((x for x in lines[i + 1:] if x.kind not in WS), None)
                if nxt is None or nxt.parent != l.id:
                    return False      # opener without an instruction in its indented body (C17 territory)
            if l.kind in WS:
                wsi = (l.node or {}).get("wsi")
                if wsi is not None and not (isinstance(wsi, int) and not isinstance(wsi, bool) and 0 <= wsi <= 4 * l.depth):
                    return False      # blank/comment lines are never indented deeper than the body they sit in
        for l in lines:
            n = l.node or {}
            if l.kind in INTERRUPTS and not (isinstance(n.get("cond"), dict) and n["cond"].get("tag") in G.UNITS_FOR
                                            and n["cond"].get("unit") in G.UNITS_FOR[n["cond"]["tag"]]
                                            and n["cond"].get("op") in G.OPS and isinstance(n["cond"].get("val"), (int, float))):
                return False
            if l.kind in INTERRUPTS and not [c for c in n.get("c", [])]:
                return False
            if l.kind == "base" and n.get("u") != "s":
                return False
            if l.kind in ("slow", "ova", "ovb") and not (isinstance(n.get("n"), int) and 1 <= n["n"] <= 9):
                return False
            if l.kind == "wait" and not (isinstance(n.get("d"), (int, float)) and 0 <= n["d"] <= 10):
                return False
            if n.get("t") is not None and not (isinstance(n["t"], (int, float)) and 0 <= n["t"] <= 10):
                return False
        # macros: defined at top level before use, unique names, no recursion (a call names an earlier macro)
        defined: list = []
        for l in lines:
            if l.kind == "macro":
                if l.depth != 0 or l.payload in defined:
                    return False
                defined.append(l.payload)
            if l.kind == "callmacro":
                if l.payload not in defined:
                    return False
                a = l
                byid = {x.id: x for x in lines}
                while a.parent is not None:
                    a = byid[a.parent]
                    if a.kind == "macro" and a.payload == l.payload:
                        return False
        for p in case.get("traj", []):
            if not (isinstance(p, list) and len(p) == 2 and isinstance(p[0], int) and isinstance(p[1], dict)
                    and all(k in ("In1", "In2", "Temp") and isinstance(v, (int, float)) for k, v in p[1].items())):
                return False
        rr = case.get("rerun")
        if rr is not None and not (isinstance(rr, dict) and rr.get("how") in ("restart", "stop-start")
                                   and isinstance(rr.get("at"), int) and not isinstance(rr.get("at"), bool) and 1 <= rr["at"] <= 2000):
            return False
        if not isinstance(case.get("init", {}), dict) or not all(
                k in ("In1", "In2", "Temp") and isinstance(v, (int, float)) for k, v in case.get("init", {}).items()):
            return False
        return True
    except Exception:
        return False


# ---------------------------------------------------------------------------------------------
# static structure of the rendered method
# ---------------------------------------------------------------------------------------------

class Prog:
    def __init__(self, lines):
        self.lines = lines
        self.byid = {l.id: l for l in lines}
        self.index = {l.id: i for i, l in enumerate(lines)}
        self.children: dict = {}
        for l in lines:
            self.children.setdefault(l.parent, []).append(l.id)
        self.sib = {}
        for par, ch in self.children.items():
            for i, c in enumerate(ch):
                self.sib[c] = i
        self.anc: dict = {}
        for l in lines:
            a, p = [], l.parent
            while p is not None:
                a.append(p)
                p = self.byid[p].parent
            self.anc[l.id] = a                      # innermost first
        self.mark = {l.payload: l.id for l in lines if l.kind == "mark"}
        self.notify = {l.payload: l.id for l in lines if l.kind == "notify"}
        self.block = {l.payload: l.id for l in lines if l.kind == "block"}
        self.macro = {l.payload: l.id for l in lines if l.kind == "macro"}
        self.cmd = {}
        names = {"quick": "Quick", "slow": "Slow", "ova": "OvA", "ovb": "OvB", "flow": "Flow", "info": "Info"}
        for l in lines:
            if l.kind in names:
                self.cmd[(names[l.kind], l.payload)] = l.id
            elif l.kind == "set":
                self.cmd[("Set%d" % l.node["reg"], l.payload)] = l.id
        last_instr = max([i for i, l in enumerate(lines) if l.kind not in WS], default=-1)
        self.trailing_ws = [l.id for i, l in enumerate(lines) if l.kind in WS and i > last_instr]
        self.inner_ws = [l.id for i, l in enumerate(lines) if l.kind in WS and i < last_instr]

    def kind(self, lid):
        return self.byid[lid].kind

    def pred(self, lid):
        """nearest preceding sibling that is an instruction (not blank/comment)"""
        par = self.byid[lid].parent
        ch = self.children[par]
        for c in reversed(ch[:self.sib[lid]]):
            if self.kind(c) not in WS:
                return c
        return None

    def block_ancestors(self, lid):
        return [a for a in self.anc[lid] if self.kind(a) == "block"]

    def in_interrupt_below(self, lid, block_id):
        """is there a Watch/Alarm between the line and its ancestor block_id"""
        for a in self.anc[lid]:
            if a == block_id:
                return False
            if self.kind(a) in INTERRUPTS:
                return True
        return False

    def nested_interrupt_in_alarm(self, lid) -> bool:
        """the line is, or lies inside, a Watch/Alarm that is itself declared inside a body that runs repeatedly
        (Alarm body, Macro body): the next invocation of that body resets the run-time state of the nested interrupt
        while its handler from the previous invocation may still be alive"""
        chain = [lid] + self.anc[lid]
        for i, a in enumerate(chain):
            if self.kind(a) in INTERRUPTS and any(self.kind(b) in ("alarm", "macro") for b in chain[i + 1:]):
                return True
        return False

    def label(self, lid, kind=None) -> str:
        """signature context: the structural situation of the line (root-cause oriented, not kind oriented)"""
        if self.nested_interrupt_in_alarm(lid):
            return "interrupt-in-repeated-body"
        rep = self.repeater(lid)
        k = kind if kind is not None else self.kind(lid)
        return k + ((":in-" + rep) if rep else "")

    def repeater(self, lid):
        for a in self.anc[lid]:
            if self.kind(a) in ("alarm", "macro"):
                return self.kind(a)
        return None


# ---------------------------------------------------------------------------------------------
# trace runner
# ---------------------------------------------------------------------------------------------

class Trace:
    def __init__(self):
        self.prog: Prog = None          # type: ignore
        self.events: list = []          # judged prefix of the harness event list
        self.ticks: list = []           # per tick dict(no, time, block, state, status, ev_end, ws_started, ws_executed)
        self.aborted: str | None = None  # reason the judged prefix ends early (method error, not Running ...)
        self.append: dict | None = None  # result of the append follow-up
        self.second = None               # Trace of a second run (after Restart / Stop+Start) of the same method, if the case has one
        self.second_how = None
        self.final_state = None


def append_position(prog: Prog):
    """Where a user appends a line 'below the trailing blank/comment lines': at the end of the method, at the
    indentation of the last instruction line X (the parser attaches every trailing blank/comment line to X's scope,
    whatever its own indentation).  Not defined when X opens a scope (empty body) or when X lies in a repeating
    scope (Alarm / Macro body: the parked body may be re-created by the next invocation)."""
    if not prog.trailing_ws:
        return None
    instr = [l for l in prog.lines if l.kind not in WS]
    if not instr:
        return None
    x = instr[-1]
    if x.kind in CONTAINERS:
        return None
    if any(prog.kind(a) in ("alarm", "macro", "watch") for a in prog.anc[x.id]):
        return None
    if any(l.kind in INTERRUPTS for l in prog.lines):
        # the current merge re-runs the method from the top (C01's subject); with Watch/Alarm conditions the re-run need not
        # reach the same position under the frozen inputs, so the follow-up is only defined for interrupt-free methods
        return None
    return x.parent, x.depth


def run_trace(case, follow_up: bool = True) -> Trace:
    from vp.harness.engine_h import EngineHarness
    install_hooks()
    lines = render(case["tree"])
    prog = Prog(lines)
    tr = Trace()
    tr.prog = prog
    h = EngineHarness(G.as_method_lines(lines))
    orig_sched = h.engine.schedule_execution

    def sched(*a, **k):
        name = k.get("name", a[0] if a else None)
        args = k.get("arguments", a[1] if len(a) > 1 else "")
        inst = k.get("instance_id", a[2] if len(a) > 2 else None)
        h.events.append((h.tick_no, "sched", name, args, inst))
        return orig_sched(*a, **k)
    h.engine.schedule_execution = sched     # type: ignore
    _SINK[0] = h
    ws_ids = set(prog.trailing_ws) | set(prog.inner_ws)
    try:
        h.set_inputs(**{k: float(v) for k, v in case.get("init", {}).items()})
        judged_end = None

        cur_tr = [tr]
        base = [0]          # event index at which the current run's event list begins

        def one_tick():
            o = h.tick()
            ms = h.method_state()
            rec = {"no": o.no, "time": o.time, "block": o.block, "state": o.state, "status": o.status,
                   "ev_end": len(h.events) - base[0], "inputs": dict(h.hw.inputs),
                   "ws_started": [i for i in ms.started_line_ids if i in ws_ids],
                   "ws_executed": [i for i in ms.executed_line_ids if i in ws_ids]}
            cur_tr[0].ticks.append(rec)
            return o

        def run_ticks(t_, n, with_traj):
            """tick n times; the judged prefix of the run ends before the first tick that is not Running / has a method error"""
            end = None
            for i in range(n):
                if with_traj:
                    ch = G.traj_at(case.get("traj", []), i)
                    if ch:
                        h.set_inputs(**{k: float(v) for k, v in ch.items()})
                ev0 = len(h.events)
                o = one_tick()
                bad = None
                if o.raised is not None:
                    bad = "tick-raised:%s" % type(o.raised).__name__
                elif o.state != "Running":
                    bad = "state:%s" % o.state
                elif any(e[1] == "method_error" for e in h.events[ev0:]):
                    bad = "method-error"
                if bad:
                    t_.aborted = bad
                    end = ev0
                    t_.ticks.pop()
                    break
            t_.events = list(h.events[base[0]:] if end is None else h.events[base[0]:end])

        rerun = case.get("rerun") if not case.get("append") else None
        h.engine.execute_control_command_from_user("Start")
        o = one_tick()
        run_ticks(tr, min(case["ticks"], rerun["at"]) if rerun else case["ticks"], True)
        tr.final_state = h.method_state()
        # ---- second run of the same method on the same engine: Restart, or Stop followed by Start (no method save) ----
        if rerun and tr.aborted is None:
            n_start = sum(1 for e in h.events if e[1] == "start")
            try:
                h.user("Restart" if rerun["how"] == "restart" else "Stop")
                started = False
                for i in range(14):
                    o = h.tick()
                    if rerun["how"] != "restart" and o.state == "Stopped" and not started:
                        try:
                            h.user("Start")
                            started = True
                        except ValueError:
                            pass
                    if sum(1 for e in h.events if e[1] == "start") > n_start:
                        break
            except ValueError:
                pass
            idx = [j for j, e in enumerate(h.events) if e[1] == "start"]
            if len(idx) > n_start and h.state == "Running":
                t2 = Trace()
                t2.prog = prog
                t2.is_second = True
                base[0] = idx[n_start]
                cur_tr[0] = t2
                # the tick in which the run started belongs to run 2
                t2.ticks.append({"no": h.tick_no, "time": 0.0, "block": h.engine._system_tags["Block"].get_value(), "state": h.state,
                                 "status": "", "ev_end": len(h.events) - base[0], "inputs": dict(h.hw.inputs),
                                 "ws_started": [], "ws_executed": []})
                run_ticks(t2, case["ticks"], False)
                t2.final_state = h.method_state()
                tr.second = t2
                tr.second_how = rerun["how"]
        # ---- follow-up: append a Mark below the trailing blank/comment lines (one live edit) -------------
        if follow_up and case.get("append") and tr.aborted is None:
            pos = append_position(prog)
            if pos is not None:
                parent, depth = pos
                new_lines = G.as_method_lines(lines) + [("zz1", "    " * depth + "Mark: zz")]
                res = {"parent": parent, "depth": depth, "edit_error": None, "zz": 0, "ticks": 0,
                       "waiting": _scope_waiting(prog, tr, parent)}
                ev0 = len(h.events)
                try:
                    h.set_method(new_lines)
                except Exception as ex:      # MethodEditError and friends are recorded, not judged as order violations
                    res["edit_error"] = "%s: %s" % (type(ex).__name__, str(ex)[:200])
                if res["edit_error"] is None:
                    for i in range(case["ticks"] + 40):     # enough for a complete re-run of the method from the top
                        o = h.tick()
                        res["ticks"] += 1
                        if o.raised is not None or o.state != "Running":
                            res["edit_error"] = "after-edit:%s" % (type(o.raised).__name__ if o.raised is not None else o.state)
                            break
                        if any(e[1] == "mark" and e[2] == "zz" for e in h.events[ev0:]) and i >= 8:
                            break
                    res["zz"] = sum(1 for e in h.events[ev0:] if e[1] == "mark" and e[2] == "zz")
                    res["after_marks"] = [e[2] for e in h.events[ev0:] if e[1] == "mark"]
                tr.append = res
    finally:
        _SINK[0] = None
        h.close()
    return tr


def _scope_waiting(prog: Prog, tr: Trace, parent) -> bool:
    """Precondition of the append follow-up: at the end of the judged run the interpreter is parked at the first
    trailing blank/comment line (it has a run-log record, i.e. the interpreter visited it) and the scope that contains
    it is still open: no enclosing block has ended, an enclosing Watch has not ended."""
    first = prog.trailing_ws[0]
    vis = [i for i, e in enumerate(tr.events) if e[1] == "rt" and e[2] == first and e[3] == "created"]
    if not vis:
        return False
    scopes = ([parent] if parent is not None else []) + (prog.anc[parent] if parent is not None else [])
    for sc in scopes:
        k = prog.kind(sc)
        if k == "block":
            starts = [i for i, e in enumerate(tr.events) if e[1] == "block_start" and prog.block.get(e[2]) == sc]
            if not starts or any(e[1] == "block_end" and prog.block.get(e[2]) == sc for e in tr.events[starts[-1]:]):
                return False
        elif k == "watch":
            if any(e[1] == "scope_end" and e[3] == sc for e in tr.events):
                return False
        else:
            return False
    return True


# ---------------------------------------------------------------------------------------------
# monitors
# ---------------------------------------------------------------------------------------------

class Ctx:
    """container invocation counters maintained while replaying the event list"""

    def __init__(self, prog: Prog):
        self.prog = prog
        self.counter: dict = {}          # container line id -> invocations so far
        self.open_calls: dict = {}       # macro line id -> set of call line ids visited and not completed
        self.started_calls: dict = {}    # macro line id -> number of calls started and not completed
        self.concurrent: set = set()     # macro line ids with overlapping calls (weak mode)
        self.active: list = []           # active block line ids, outermost first
        self.inst2node: dict = {}

    def weak(self, lid) -> bool:
        return any(a in self.concurrent for a in self.prog.anc[lid])

    def pc(self, lid):
        par = self.prog.byid[lid].parent
        return 0 if par is None else self.counter.get(par, 0)


def analyse(tr: Trace):
    """One pass over the judged events.  Returns (c02_violations, c05_violations, info) with violations as
    lists of (signature, message)."""
    prog = tr.prog
    cx = Ctx(prog)
    v2: list = []
    v5: list = []
    info = {"classes": set(), "max_active": 0, "blocks_from_interrupt": 0, "interrupt_bodies": 0, "alarm_reruns": 0,
            "macro_calls": 0, "endblock_in_interrupt": 0, "endblocks": 0, "blocks_started": 0,
            "cmd_succ_before_completion": 0, "inner_ws_passed": 0, "starts": 0}
    tick_time = {t["no"]: t["time"] for t in tr.ticks}

    # Only the FIRST violation (in event order) of each property is reported per case: after a violation the
    # interpreter state is undefined and everything later is a cascade (e.g. a command issued twice with one instance
    # id confuses the command manager, which then restarts an unrelated command).  A violation labelled
    # `interrupt-in-repeated-body` (C02 mechanism: the re-arming Alarm resets nested interrupts that are still alive,
    # their bodies then run twice / are skipped) also ends the judged part for C05.
    cur = [0]
    stop = {"v2": None, "v5": None}
    conc_stop = [None]     # event index at which C05 stopped judging because calls of a macro with blocks overlap

    def add(lst, sig, msg):
        which = "v2" if lst is v2 else "v5"
        if stop[which] is not None:
            return
        if "interrupt-in-repeated-body" in sig:
            # one signature per property for the whole structural class (mechanism: the re-arming Alarm resets the run-time
            # state of everything in its body while interrupts / blocks started from that body are still alive)
            msg = "%s  [%s]" % (msg, sig)
            sig = "interrupt-in-repeated-body:" + ("once-and-in-order" if which == "v2" else "block-bookkeeping")
        lst.append((sig, msg))
        stop[which] = cur[0]
        if "interrupt-in-repeated-body" in sig and stop["v5"] is None:
            stop["v5"] = cur[0]
            info["classes"].add("c05-judged-until:interrupt-in-repeated-body")

    def txt(lid):
        return "%s %r" % (lid, prog.byid[lid].text.strip())

    def nia(lid):
        return ":interrupt-in-repeated-body" if prog.nested_interrupt_in_alarm(lid) else ""

    def nia_any(lids):
        return ":interrupt-in-repeated-body" if any(prog.nested_interrupt_in_alarm(x) for x in lids) else ""

    def ended_block_of(lid):
        """an enclosing block of the line that has started and is not active (ended), else None"""
        for b in prog.block_ancestors(lid):
            if b not in cx.active and cx.counter.get(b, 0) > 0:
                return b
        return None

    # per channel state
    seen = {"L": {}, "E": {}}          # (line, pc) -> (event index, tick)
    maxsib = {"L": {}, "E": {}}        # (parent, pc) -> (sibling index, line)
    completed: dict = {}               # (line, pc) -> event index          (run-log completed)
    key_of_inst: dict = {}             # instance id -> (line, pc)
    block_end_idx: dict = {}           # block line id -> event index of its last block_end since its last start
    cmd_done: set = set()              # instance ids whose command completed
    end_window = None                  # [line id, kind, number of block_end events, active-at-start list]
    reg_in: dict = {}                  # interrupt line -> {enclosing block: its invocation number} at the time of its last registration
    rearm: set = set()                 # alarms that completed a body and will re-register themselves

    first_exec_inst: dict = {}         # (line, pc) -> instance id of the first exec call (effect channel)
    # Registered finding, recognised by its mechanism: a command issued by invocation k of a repeated body (Alarm or Macro
    # body) reaches its conclusive run-log state (completed / cancelled / failed) only after invocation k is over and the body
    # has been reset; that late state lands on the freshly reset node and invocation k+1 skips the line.  The signature keeps the name under which it is recorded in known_findings.json
    # (first seen in an Alarm body); it is used for Alarm and Macro bodies alike, but only when the late completion is
    # in the event log.
    LATE_COMPLETION_SIG = "pred-not-started:command:in-alarm"
    late_completed: dict = {}          # command line -> number of the parent's invocation that follows the one which issued a
    #                                    command that completed only after that (issuing) invocation was over
    inv_closed: set = set()            # (Alarm / Macro line, invocation number) of invocations that are over
    # S6 -- open invocations of repeating / interrupt bodies: container line -> dict(ei0, tick, pc, cut, by)
    inv_open: dict = {}
    call_created: dict = {}            # instance id of a Call macro visit -> (event index, tick) of its `created` state
    call_started: set = set()          # instance ids of Call macro visits that got a `started` state
    last_block_end_tick = [None]
    cut_macros: set = set()            # macros with a call that was cut short by a block end (class only)

    inv_start: dict = {}               # (container line, invocation number) -> (event index, tick) of the invocation's start
    block_end_eis: list = []           # event indices of all block end events

    def inv_begin(cont, ei, tick, by=None):
        inv_start[(cont, cx.counter.get(cont, 0))] = (ei, tick)
        if cx.weak(cont) or (by is not None and cx.weak(by)):
            inv_open.pop(cont, None)
            return
        lbt = last_block_end_tick[0]
        inv_open[cont] = {"ei0": ei, "tick": tick, "pc": cx.counter.get(cont, 0), "by": by,
                          # a block that ended just before the start (same or previous tick) may enclose the invocation
                          # dynamically: its lines are then legitimately not started
                          "cut": (lbt is not None and lbt >= tick - 1) or ended_block_of(cont) is not None
                          or (by is not None and ended_block_of(by) is not None)}

    def inv_end(cont, ei, tick, by=None):
        """S6: a completed invocation that no block end cut short has started every instruction line of its body"""
        w = inv_open.pop(cont, None)
        if w is None or w["by"] != by:
            return
        ck = prog.kind(cont)
        if w["cut"]:
            if ck == "macro":
                cut_macros.add(cont)
            return
        if cont in cx.concurrent or cx.weak(cont) or ended_block_of(cont) is not None:
            return
        if ck == "macro" and cont in cut_macros:
            info["classes"].add("macro-cut-short-then-called-again")
        missing = []
        for c in prog.children.get(cont, []):
            kc = prog.kind(c)
            if kc in WS:
                continue
            if kc == "callmacro" and prog.macro.get(prog.byid[c].payload) in cx.concurrent:
                continue
            hit = seen["L"].get((c, w["pc"]))
            if hit is None or hit[0] < w["ei0"]:
                missing.append(c)
        if not missing:
            info["complete_invocations"] = info.get("complete_invocations", 0) + 1
            return
        what = "%s (invocation #%d, tick %d..%d)" % (txt(by if by is not None else cont), w["pc"], w["tick"], tick)
        if prog.nested_interrupt_in_alarm(cont) or any(prog.nested_interrupt_in_alarm(c) for c in missing):
            sig = "invocation-skipped-line:interrupt-in-repeated-body"
        elif all(prog.kind(c) in COMMANDS and late_completed.get(c) == w["pc"] for c in missing):
            sig = LATE_COMPLETION_SIG
        else:
            sig = "invocation-skipped-line:%s%s" % (ck, ":command" if all(prog.kind(c) in COMMANDS for c in missing) else "")
        add(v2, sig, "[L] %s completed without starting its body line(s) %s although no block ended during it"
            % (what, [txt(c) for c in missing]))

    def on_start(ch, lid, ei, tick, inst=None):
        info["starts"] += 1
        kind = prog.kind(lid)
        par = prog.byid[lid].parent
        pc = cx.pc(lid)
        if inst is not None:
            key_of_inst[inst] = (lid, pc)
        if cx.weak(lid):
            info["classes"].add("macro-concurrent-call")
            return
        if ended_block_of(lid) is not None:
            info["classes"].add("start-in-ended-block")      # judged by C05 (B4), not here
            return
        lab = prog.label(lid)
        # S4: the enclosing block / macro call / interrupt has started
        if par is not None:
            pk = prog.kind(par)
            if pc == 0:
                add(v2, "child-before-parent:%s" % ("interrupt-in-repeated-body" if lab == "interrupt-in-repeated-body" else pk), "[%s] tick %d: %s started although its enclosing %s %s has not started"
                    % (ch, tick, txt(lid), pk, txt(par)))
            elif pk == "macro" and cx.started_calls.get(par, 0) <= 0:
                add(v2, "macro-line-outside-call", "[%s] tick %d: %s (body of %s) started while no call of the macro is in progress"
                    % (ch, tick, txt(lid), txt(par)))
        # S1: at most once per invocation of the enclosing scope
        key = (lid, pc)
        if ch == "E" and kind in COMMANDS and key in seen[ch] and first_exec_inst.get(key) == inst and inst is not None:
            # the interpreter issued the command once; the engine ran the SAME command instance from iteration 0 again
            add(v2, "engine-restarted-command-instance", "[E] tick %d: the command of %s (instance %s) executed its first iteration again "
                "(first at tick %d) although the interpreter issued it once -- the engine re-created a cancelled/finalized command"
                % (tick, txt(lid), str(inst)[-4:], seen[ch][key][1]))
            return
        if ch == "E" and kind in COMMANDS and key not in seen[ch]:
            first_exec_inst[key] = inst
        if key in seen[ch]:
            add(v2, "dup-start:%s" % lab, "[%s] tick %d: %s started again (first at tick %d) within the same invocation #%d of %s"
                % (ch, tick, txt(lid), seen[ch][key][1], pc, txt(par) if par else "the method"))
            return
        seen[ch][key] = (ei, tick)
        # S2: source order among siblings
        mk = (par, pc)
        si = prog.sib[lid]
        if mk in maxsib[ch] and maxsib[ch][mk][0] > si:
            other = maxsib[ch][mk][1]
            add(v2, "order:%s" % (lab if lab == "interrupt-in-repeated-body" else "%s-after-later-%s" % (lab, prog.kind(other))),
                "[%s] tick %d: %s started after the later sibling %s had started" % (ch, tick, txt(lid), txt(other)))
        else:
            maxsib[ch][mk] = (si, lid)
        # S3: predecessor
        p = prog.pred(lid)
        if p is None:
            return
        pk = prog.kind(p)
        pkey = (p, pc)
        if pk == "callmacro" and prog.macro.get(prog.byid[p].payload) in cx.concurrent:
            # the call joined a call of the same macro that was in progress on another thread: it gets no run-log `started`
            info["classes"].add("macro-concurrent-call")
            return
        plab = "interrupt-in-repeated-body" if (lab == "interrupt-in-repeated-body" or prog.nested_interrupt_in_alarm(p)) \
            else prog.label(p, "command" if pk in COMMANDS else None)
        if ch == "E":
            # (a command predecessor may legitimately never execute: a same-name / overlapping request issued in the same
            #  tick by another thread cancels it before its first iteration -- so only Mark / Notify / Block are required)
            if pk in ("mark", "notify", "block") and prog.byid[p].payload is not None:
                if pkey not in seen["E"]:
                    add(v2, "pred-no-effect:%s" % plab, "[E] tick %d: %s produced its effect although the instruction before it, %s, never produced one in this invocation"
                        % (tick, txt(lid), txt(p)))
                elif pk == "block" and not (p in block_end_idx and block_end_idx[p] > seen["E"][pkey][0]):
                    add(v5, "succ-before-block-end" + nia(p), "[E] tick %d: %s (after block %s) produced its effect before that block's end event"
                        % (tick, txt(lid), txt(p)))
            return
        if pkey not in seen["L"]:
            if pk in COMMANDS and late_completed.get(p) == pc:
                plab = LATE_COMPLETION_SIG[len("pred-not-started:"):]
            add(v2, "pred-not-started:%s" % plab, "[L] tick %d: %s started although the instruction before it, %s, has not started in this invocation"
                % (tick, txt(lid), txt(p)))
            return
        if pk in COMPLETING and pkey not in completed:
            add(v2, "pred-not-completed:%s" % plab, "[L] tick %d: %s started although the instruction before it, %s (started tick %d), has no completed run-log state"
                % (tick, txt(lid), txt(p), seen["L"][pkey][1]))
        if pk == "block" and not (p in block_end_idx and block_end_idx[p] > seen["L"][pkey][0]):
            add(v5, "succ-before-block-end" + nia(p), "[L] tick %d: %s (after block %s) started before that block's end event" % (tick, txt(lid), txt(p)))
        if pk == "wait":
            d = float(prog.byid[p].node["d"])
            t0, t1 = tick_time.get(seen["L"][pkey][1]), tick_time.get(tick)
            if t0 is not None and t1 is not None and (t1 - t0) < d - 0.1 - 1e-6:
                add(v2, "wait-cut-short:%s" % plab, "[L] %s started %.3f s after %s started (tick %d -> %d); the Wait lasts %s s"
                    % (txt(lid), t1 - t0, txt(p), seen["L"][pkey][1], tick, d))
        if pk in COMMANDS:
            insts = [i for i, k in key_of_inst.items() if k == pkey]
            if insts and not any(i in cmd_done for i in insts):
                info["cmd_succ_before_completion"] += 1

    def on_visit(lid, ei, tick):
        """C05: nothing of an ended block begins afterwards"""
        if prog.kind(lid) in WS or prog.kind(lid) in INTERRUPTS:
            return      # Watch/Alarm lines: their registration / activation after the end is judged where it happens
        for b in prog.block_ancestors(lid):
            if b not in cx.active and cx.counter.get(b, 0) > 0:
                where = "interrupt" if prog.in_interrupt_below(lid, b) else "body"
                add(v5, "visit-in-ended-block:%s%s" % (where, nia(lid)), "tick %d: the interpreter began %s although its enclosing block %s has ended"
                    % (tick, txt(lid), txt(b)))

    for ei, e in enumerate(tr.events):
        cur[0] = ei
        tick, k = e[0], e[1]
        if k == "rt":
            node, state, inst = e[2], e[3], e[4]
            if node not in prog.byid:
                continue
            kind = prog.kind(node)
            if state == "created":
                cx.inst2node[inst] = node
                on_visit(node, ei, tick)
                if kind == "callmacro":
                    m = prog.macro.get(prog.byid[node].payload)
                    call_created[inst] = (ei, tick)
                    oc = cx.open_calls.setdefault(m, set())
                    if oc:
                        cx.concurrent.add(m)
                        if stop["v5"] is None and any(prog.kind(d) == "block" and m in prog.anc[d] for d in prog.byid):
                            # overlapping calls of a macro that contains blocks: the calls share (and reset) the block nodes;
                            # neither statement says how -- C05 judges the case up to here only, as C02 does for the body lines
                            stop["v5"] = ei
                            conc_stop[0] = ei
                            info["classes"].add("c05-judged-until:macro-concurrent-call")
                    oc.add(node)
                if kind in WS and node in prog.inner_ws:
                    pass
            elif state == "started":
                if kind in INTERRUPTS:
                    info["interrupt_bodies"] += 1
                    continue
                if kind in COMMANDS:
                    continue
                if kind == "block":
                    key_of_inst[inst] = (node, cx.pc(node))     # its start was the block_start event just before
                    continue
                if kind == "callmacro":
                    m = prog.macro.get(prog.byid[node].payload)
                    call_started.add(inst)
                    on_start("L", node, ei, tick, inst)
                    cx.counter[m] = cx.counter.get(m, 0) + 1
                    cx.started_calls[m] = cx.started_calls.get(m, 0) + 1
                    info["macro_calls"] += 1
                    if m in inv_open or m in cx.concurrent:
                        inv_open.pop(m, None)        # overlapping calls of one macro are not judged
                    else:
                        inv_begin(m, ei, tick, by=node)
                    continue
                if kind in ("endblock", "endblocks"):
                    on_start("L", node, ei, tick, inst)
                    end_window = [node, kind, 0, list(cx.active)]
                    if kind == "endblocks":
                        info["endblocks"] += 1
                    if any(prog.kind(a) in INTERRUPTS for a in prog.anc[node]):
                        info["endblock_in_interrupt"] += 1
                    continue
                on_start("L", node, ei, tick, inst)
            elif state in ("cancelled", "failed"):
                # a conclusive state of a command of an invocation that is already over (see LATE_COMPLETION_SIG)
                if kind in COMMANDS and inst in key_of_inst and key_of_inst[inst][0] == node:
                    par_, pc_old = prog.byid[node].parent, key_of_inst[inst][1]
                    if par_ is not None and (par_, pc_old) in inv_closed:
                        late_completed[node] = pc_old + 1
            elif state == "completed":
                if inst in key_of_inst and key_of_inst[inst][0] == node:
                    completed[key_of_inst[inst]] = ei
                if kind in COMMANDS:
                    cmd_done.add(inst)
                    if inst in key_of_inst and key_of_inst[inst][0] == node:
                        par_, pc_old = prog.byid[node].parent, key_of_inst[inst][1]
                        if par_ is not None and (par_, pc_old) in inv_closed:
                            late_completed[node] = pc_old + 1     # the invocation that issued it is over: the next one is hit
                if kind == "callmacro":
                    m = prog.macro.get(prog.byid[node].payload)
                    cx.open_calls.setdefault(m, set()).discard(node)
                    if cx.started_calls.get(m, 0) > 0:
                        cx.started_calls[m] -= 1
                    inv_closed.add((m, cx.counter.get(m, 0)))
                    inv_end(m, ei, tick, by=node)
                    c0 = call_created.pop(inst, None)
                    if inst not in call_started and c0 is not None and m not in cx.concurrent and not cx.weak(node) \
                            and ended_block_of(node) is None and not any(x[1] == "block_end" for x in tr.events[c0[0]:ei]) \
                            and not (last_block_end_tick[0] is not None and last_block_end_tick[0] >= c0[1] - 1):
                        # S6 for a call that never got a `started` state: no other call of the macro was in progress that it
                        # could have joined, no block ended -- yet the call is over; it must have started the body lines
                        body = [c for c in prog.children.get(m, []) if prog.kind(c) not in WS]
                        ran = {x[2] for x in tr.events[c0[0]:ei] if x[1] == "rt" and x[3] == "started"} | \
                              {cx.inst2node.get(x[4]) for x in tr.events[c0[0]:ei] if x[1] == "sched"} | \
                              {x[3] for x in tr.events[c0[0]:ei] if x[1] == "scope_start"} | \
                              {prog.block.get(x[2]) for x in tr.events[c0[0]:ei] if x[1] == "block_start"}
                        missing = [c for c in body if c not in ran]
                        if missing:
                            add(v2, "invocation-skipped-line:macro:call-not-started",
                                "[L] %s (tick %d..%d) completed without a started run-log state and without starting the macro's body "
                                "line(s) %s; no other call of the macro was in progress and no block ended" % (txt(node), c0[1], tick, [txt(c) for c in missing]))
                    call_started.discard(inst)
                if kind in ("endblock", "endblocks") and end_window is not None and end_window[0] == node:
                    w = end_window
                    end_window = None
                    if kind == "endblock":
                        want = 1 if w[3] else 0
                        if w[2] != want:
                            add(v5, "endblock:ended-%d-blocks:%d-active%s" % (w[2], min(len(w[3]), 2), nia_any([node] + w[3])),
                                "tick %d: %s ended %d block(s) with active blocks %s" % (tick, txt(node), w[2], [txt(b) for b in w[3]]))
                    else:
                        if cx.active:
                            add(v5, "endblocks:left-active" + nia_any([node] + cx.active), "tick %d: after %s the blocks %s are still active" % (tick, txt(node), [txt(b) for b in cx.active]))
        elif k == "sched":
            node = cx.inst2node.get(e[4])
            if node in prog.byid and prog.kind(node) in COMMANDS:
                on_start("L", node, ei, tick, e[4])
        elif k == "mark":
            lid = prog.mark.get(e[2])
            if lid:
                on_start("E", lid, ei, tick)
        elif k == "notify":
            lid = prog.notify.get(e[2])
            if lid:
                on_start("E", lid, ei, tick)
        elif k == "cmd":
            if e[4] == "exec" and e[6] == 0:
                lid = prog.cmd.get((e[2], e[5]))
                if lid:
                    on_start("E", lid, ei, tick, "E:" + str(e[3]))
        elif k == "scope_start":
            if e[2] in ("Watch", "Alarm") and e[3] in prog.byid:
                lid = e[3]
                eb = ended_block_of(lid)
                if eb is not None:
                    # registered although an enclosing block has ended: C05's subject (pending interrupts end with the block).
                    # Tolerated: the FIRST registration of a Watch/Alarm line whose visit had begun when the block ended
                    # (the line finishes, like any line being visited).  Not tolerated: an interrupt that was pending when
                    # the block ended (registered during this invocation of the block) and is registered again.
                    if reg_in.get(lid, {}).get(eb) == cx.counter.get(eb, 0):
                        add(v5, "aborted-interrupt-registered-again:%s" % prog.kind(lid),
                            "tick %d: %s, pending when its enclosing block %s ended, was registered as interrupt again after the end"
                            % (tick, txt(lid), txt(eb)))
                    else:
                        info["classes"].add("late-first-registration-in-ended-block")
                    rearm.discard(lid)
                    continue
                reg_in[lid] = {b_: cx.counter.get(b_, 0) for b_ in prog.block_ancestors(lid)}
                if prog.kind(lid) == "alarm" and lid in rearm:
                    rearm.discard(lid)          # the Alarm re-registers itself after a completed body: not a start of the line
                    continue
                on_start("L", lid, ei, tick)
                if prog.kind(lid) == "watch":
                    cx.counter[lid] = cx.counter.get(lid, 0) + 1     # a Watch body runs once per registration
        elif k == "scope_end":
            if e[2] in ("Watch", "Alarm") and e[3] in prog.byid:
                inv_closed.add((e[3], cx.counter.get(e[3], 0)))
                inv_end(e[3], ei, tick)
            if e[2] == "Alarm" and e[3] in prog.byid:
                rearm.add(e[3])
        elif k == "scope_activate":
            if e[2] in ("Watch", "Alarm") and e[3] in prog.byid and ended_block_of(e[3]) is not None:
                # an aborted interrupt may still activate (stale handler, late registration); its BODY lines are judged (B4)
                info["classes"].add("interrupt-activated-in-ended-block(body-judged)")
            if e[2] == "Alarm" and e[3] in prog.byid:
                cx.counter[e[3]] = cx.counter.get(e[3], 0) + 1
                if cx.counter[e[3]] > 1:
                    info["alarm_reruns"] += 1
            if e[2] in ("Watch", "Alarm") and e[3] in prog.byid:
                inv_begin(e[3], ei, tick)
        elif k == "block_start":
            if e[2] == "root":
                continue
            b = prog.block.get(e[2])
            if b is None:
                continue
            info["blocks_started"] += 1
            # chain: every active block must be a lexical ancestor of the block that starts
            not_anc = [a for a in cx.active if a not in prog.anc[b]]
            if b in cx.active:
                ovl = [a for a in prog.anc[b] if prog.kind(a) == "macro" and a in cx.concurrent]
                if ovl and conc_stop[0] is not None and stop["v5"] == conc_stop[0] and not v5:
                    # The consequences of overlapping calls of a macro with blocks are not judged (see `created` of Call macro),
                    # but the restart of a block that is still active is itself against "active blocks form a single nested
                    # chain": reported under its own narrow signature, as the one violation of the case.
                    calls = sorted(c for c in prog.byid if prog.kind(c) == "callmacro" and prog.macro.get(prog.byid[c].payload) == ovl[0])
                    v5.append(("chain:block-started-while-active:overlapping-macro-calls",
                               "tick %d: %s (body of %s) started while it was already active; calls of the macro overlap (call lines %s): "
                               "a later call reset the macro body while an earlier call was still inside the block"
                               % (tick, txt(b), txt(ovl[0]), calls)))
                    stop["v5"] = ei
                else:
                    add(v5, "chain:block-started-while-active" + nia(b), "tick %d: %s started while it was already active" % (tick, txt(b)))
            elif not_anc:
                add(v5, "chain:start-beside-active-block" + nia(b), "tick %d: %s started while %s, which does not enclose it, is active"
                    % (tick, txt(b), [txt(a) for a in not_anc]))
            on_start("E", b, ei, tick)
            on_start("L", b, ei, tick)      # the Block line starts when it gets the lock (its run-log `started` follows in the same tick)
            cx.counter[b] = cx.counter.get(b, 0) + 1
            inv_start[(b, cx.counter[b])] = (ei, tick)
            if b not in cx.active:
                cx.active.append(b)
            block_end_idx.pop(b, None)
            info["max_active"] = max(info["max_active"], len(cx.active))
            if any(prog.kind(a) in INTERRUPTS for a in prog.anc[b]):
                info["blocks_from_interrupt"] += 1
        elif k == "block_end":
            last_block_end_tick[0] = tick
            block_end_eis.append(ei)
            for w_ in inv_open.values():
                w_["cut"] = True       # any block end during an invocation may cut it short (lexically or dynamically enclosing)
            b = prog.block.get(e[2])
            if b is None:
                continue
            if end_window is None:
                add(v5, "block-end-outside-end-instruction" + nia(b), "tick %d: %s ended although no End block / End blocks was executing" % (tick, txt(b)))
            else:
                end_window[2] += 1
            if b not in cx.active:
                how = "already-ended" if cx.counter.get(b, 0) > 0 else "never-started"
                add(v5, "end-of-inactive-block:%s%s" % (how, "" if how == "already-ended" and end_window else nia_any([b])),
                    "tick %d: %s produced an end event for %s which is not active (%s); active chain: %s"
                    % (tick, txt(end_window[0]) if end_window else "?", txt(b), how, [txt(a) for a in cx.active]))
            else:
                if cx.active[-1] != b:
                    which = "outermost" if cx.active[0] == b else "middle"
                    add(v5, "end:not-innermost:%s%s" % (which, nia_any(cx.active)), "tick %d: %s ended %s while the innermost active block is %s"
                        % (tick, txt(end_window[0]) if end_window else "?", txt(b), txt(cx.active[-1])))
                cx.active.remove(b)
            block_end_idx[b] = ei
        # tick boundary checks are done below

    # B6 -- 'End block' / 'End blocks' end the block(s) "together with ITS pending Watches and Alarms": a Watch/Alarm that is
    # pending (registered, not activated) and does NOT lie in a block that ends survives.  Judged as a bounded response, only
    # for an interrupt that was pending while a block that does not contain it ended: if afterwards its condition (tag's own
    # unit, so a plain number comparison on the scripted input) holds on OUTER_W+1 consecutive judged ticks while it is still
    # pending and none of its own enclosing blocks has ended, it must have activated by the end of that window.
    OUTER_W = 4
    lim5 = min([x for x in (stop["v5"], conc_stop[0]) if x is not None], default=None)
    if not v5:
        tick_ev_end = {t["no"]: t["ev_end"] for t in tr.ticks}
        judged_ticks = [t for t in tr.ticks if t["ev_end"] <= len(tr.events) and (lim5 is None or t["ev_end"] <= lim5)]
        inputs_at = {t["no"]: t.get("inputs", {}) for t in judged_ticks}

        def holds(cond, tick):
            v = inputs_at.get(tick, {}).get(cond["tag"])
            if v is None:
                return False
            a, b_ = float(v), float(cond["val"])
            return {"=": a == b_, "!=": a != b_, "<": a < b_, "<=": a <= b_, ">": a > b_, ">=": a >= b_}[cond["op"]]

        last_judged = judged_ticks[-1]["no"] if judged_ticks else -1
        for l in prog.lines:
            if l.kind not in INTERRUPTS or prog.nested_interrupt_in_alarm(l.id) or any(prog.kind(a) == "macro" for a in prog.anc[l.id]):
                continue
            cond = (l.node or {}).get("cond") or {}
            if cond.get("unit") != G.UNITS_FOR.get(cond.get("tag"), [object()])[0]:
                continue
            own_blocks = set(prog.block_ancestors(l.id))
            reg = None          # (tick of registration) while pending
            foreign_end = None  # tick of the first end of a block that does not contain the interrupt, while pending
            killed = False
            for e in tr.events[: (lim5 if lim5 is not None else len(tr.events))]:
                if e[1] == "scope_start" and e[3] == l.id:
                    reg, foreign_end, killed = e[0], None, False
                elif e[1] == "scope_activate" and e[3] == l.id:
                    reg = None
                elif e[1] == "block_end" and reg is not None:
                    b_ = prog.block.get(e[2])
                    if b_ in own_blocks:
                        reg = None                       # its own block ended: it ends with it
                    elif foreign_end is None:
                        foreign_end = e[0]
                elif e[1] == "block_start" and reg is not None and prog.block.get(e[2]) in own_blocks:
                    pass
            if reg is None or foreign_end is None:
                continue
            # still pending at the end of the judged events, a foreign block ended while it was pending
            if any(b_ not in cx.active for b_ in own_blocks):
                continue
            t0 = max(reg, foreign_end) + 2
            run = 0
            for tk in range(t0, last_judged + 1):
                run = run + 1 if (holds(cond, tk) and holds(cond, tk - 1)) else 0
                if run >= OUTER_W + 1:
                    cur[0] = tick_ev_end.get(tk, len(tr.events))
                    add(v5, "endblock-killed-outer-interrupt:%s" % l.kind,
                        "%s was pending (registered tick %d) when a block that does not contain it ended (tick %d); its condition "
                        "holds on ticks %d..%d, none of its own blocks has ended, but it never activated"
                        % (txt(l.id), reg, foreign_end, tk - OUTER_W, tk))
                    break
            if v5:
                break

    # Block tag at every tick end: replay the active chain per tick
    cx2_active: list = []
    any_block_this_run = [False]
    ei = 0
    for t in tr.ticks:
        while ei < min(t["ev_end"], len(tr.events)):
            e = tr.events[ei]
            if e[1] == "block_start" and e[2] in prog.block and prog.block[e[2]] not in cx2_active:
                cx2_active.append(prog.block[e[2]])
                any_block_this_run[0] = True
            elif e[1] == "block_end" and prog.block.get(e[2]) in cx2_active:
                cx2_active.remove(prog.block[e[2]])
            ei += 1
        lim5 = min([x for x in (stop["v5"], conc_stop[0]) if x is not None], default=None)
        if t["ev_end"] > len(tr.events) or (lim5 is not None and t["ev_end"] > lim5):
            break
        cur[0] = t["ev_end"]
        want = prog.byid[cx2_active[-1]].payload if cx2_active else None
        got = t["block"] if t["block"] not in ("",) else None
        if got != want:
            if stop["v5"] is not None:      # this tick end precedes the violation found in the event pass
                v5.clear()
                stop["v5"] = None
            if want is None and getattr(tr, "is_second", False) and not any_block_this_run[0]:
                # second run of the method (after Restart / Stop + Start): no block has started in this run yet
                cls = "stale-from-previous-run"
            elif want is None:
                cls = "names-ended-block" if got in prog.block else "unknown-name"
            elif got is None:
                cls = "empty-while-active"
            elif prog.block.get(got) in cx2_active:
                cls = "names-outer-active-block"
            else:
                cls = "names-inactive-block"
            lab5 = nia_any(cx2_active + ([prog.block[got]] if got in prog.block else []))
            add(v5, "tag:%s%s" % (cls, lab5), "tick %d end: Block tag is %r, innermost active block is %r (active chain %s)"
                % (t["no"], t["block"], want, [prog.byid[b].payload for b in cx2_active]))

    # S7 -- bounded response inside repeated bodies, the bound taken from the run itself: a line of an Alarm / Macro body
    # (also inside a Block of such a body) that an EARLIER invocation started `lat` ticks after its reference point (the
    # instruction before it completed -- commands, Watch, Alarm: started -- or, for the first line of a scope, the scope
    # started) has, in the LATEST invocation, the same reference point behind it but has not started lat + margin ticks
    # later although its scope is still open and no block has ended since.  Not judged: lines with a threshold (clock
    # dependent), Block lines (they may wait for the block lock), lines in overlapping macro calls, nested interrupts of a
    # repeated body (registered finding), lines in ended blocks.
    STALL_MARGIN = 3
    if stop["v2"] is None and tr.ticks:
        last_tick = tr.ticks[-1]["no"]

        def ref_point(lid, pc):
            """(event index from which a block end exempts the line, tick of the reference point) or None"""
            p_ = prog.pred(lid)
            if p_ is None:
                par_ = prog.byid[lid].parent
                return inv_start.get((par_, pc)) if par_ is not None else None
            hit = seen["L"].get((p_, pc))
            if hit is None:
                return None
            if prog.kind(p_) in COMPLETING or prog.kind(p_) == "wait":
                c_ = completed.get((p_, pc))
                return None if c_ is None else (hit[0], tr.events[c_][0])
            return hit

        lat: dict = {}
        for (lid, pc), (ei_, tick_) in seen["L"].items():
            rp = ref_point(lid, pc)
            if rp is not None and tick_ >= rp[1]:
                lat.setdefault(lid, {})[pc] = tick_ - rp[1]
        for l in prog.lines:
            lid = l.id
            rep = prog.repeater(lid)
            if rep is None or l.kind in WS or l.kind == "block" or (l.node or {}).get("t") is not None:
                continue
            if prog.nested_interrupt_in_alarm(lid) or cx.weak(lid) or ended_block_of(lid) is not None:
                continue
            if l.kind == "callmacro" and prog.macro.get(l.payload) in cx.concurrent:
                continue
            par = l.parent
            pc = cx.counter.get(par, 0)
            if pc < 2 or (lid, pc) in seen["L"]:
                continue
            earlier = [v for k_, v in lat.get(lid, {}).items() if k_ < pc]
            rp = ref_point(lid, pc)
            if not earlier or rp is None:
                continue
            pk_ = prog.kind(par)
            if pk_ == "block":
                open_ = par in cx.active
            elif pk_ == "macro":
                open_ = (par, pc) not in inv_closed and cx.started_calls.get(par, 0) > 0 and par not in cx.concurrent
            else:
                open_ = (par, pc) not in inv_closed
            if not open_ or any(x >= rp[0] for x in block_end_eis):
                continue
            bound = max(earlier) + STALL_MARGIN
            if last_tick > rp[1] + bound:
                cur[0] = len(tr.events)
                add(v2, "invocation-stalled:%s" % rep,
                    "[L] %s has not started %d ticks after its reference point (tick %d, invocation #%d of %s; run judged up to tick %d) "
                    "although earlier invocations started it within %d tick(s); its scope is still open and no block ended since"
                    % (txt(lid), last_tick - rp[1], rp[1], pc, txt(par), last_tick, max(earlier)))
                break

    # trailing blank/comment lines (end of the method): never reported started / executed
    tw = set(prog.trailing_ws)
    for t in tr.ticks:
        if t["ev_end"] > len(tr.events) or (stop["v2"] is not None and t["ev_end"] > stop["v2"]):
            break
        cur[0] = t["ev_end"]
        if any(i in tw for i in t["ws_started"]):
            info["classes"].add("trailing-ws-transiently-reported-started")
        bad = [i for i in t["ws_executed"] if i in tw]
        if bad:
            if stop["v2"] is not None:
                v2.clear()
                stop["v2"] = None
            add(v2, "trailing-ws-passed:%s" % prog.kind(bad[0]), "tick %d: trailing %s line %s at the end of the method is reported executed"
                % (t["no"], prog.kind(bad[0]), bad[0]))
            break
    if tr.ticks:
        iw = set(prog.inner_ws)
        info["inner_ws_passed"] = len([i for i in tr.ticks[-1]["ws_executed"] if i in iw])
    # follow-up: a Mark appended below the trailing whitespace of the scope the interpreter waits in runs (once)
    cur[0] = len(tr.events)
    if tr.append is not None and stop["v2"] is None:
        a = tr.append
        info["classes"].add("append-followup")
        if a["edit_error"]:
            info["classes"].add("append-followup:edit-rejected-or-error")
            if a["waiting"] and not a["edit_error"].startswith("after-edit"):
                add(v2, "append-rejected", "appending 'Mark: zz' below the trailing blank/comment lines (scope %s, depth %d) was refused: %s"
                    % (a["parent"], a["depth"], a["edit_error"]))
        elif a["waiting"]:
            info["classes"].add("append-followup:scope-waiting")
            if a["zz"] == 0:
                add(v2, "appended-line-not-run", "'Mark: zz' appended below the trailing blank/comment lines of scope %s (all its instructions had run, scope open) did not run within %d ticks; marks after the edit: %s"
                    % (a["parent"] or "method", a["ticks"], a.get("after_marks")))
            elif a["zz"] > 1:
                add(v2, "appended-line-run-twice", "'Mark: zz' appended below the trailing blank/comment lines ran %d times" % a["zz"])
    return v2, v5, info
