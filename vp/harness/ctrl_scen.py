"""Control-schedule scenarios shared by C08, C09 (and reused by C10/C11): a generated method that drives
outputs + a schedule of ticks / user control commands / user output commands, run on the EngineHarness
with a per-tick record of everything the oracles need."""
from __future__ import annotations

from hypothesis import strategies as st

from vp.harness import pcode_gen as G

CFG_OUT = G.GenCfg(kinds={"set": 5, "slow": 3, "ova": 1, "ovb": 1, "wait": 3, "pause": 2, "hold": 1, "unpause": 1, "unhold": 1, "block": 2, "mark": 2,
                          "watch": 1, "flow": 1},
                   max_depth=2, max_top=7, max_children=3, thresholds=False, base_first="s", wait_max=1.0,
                   pause_durs=(0.1, 0.2, 0.3, 0.5, 0.5, 1.0, 2.0, None))

USER_OPS = ["Pause", "Unpause", "Hold", "Unhold", "Stop", "Start", "Restart", "toggle-pause", "toggle-hold", "Open1", "Open2", "Keep1", "Keep2"]
USER = st.sampled_from(["toggle-pause"] * 8 + ["toggle-hold"] * 3 + ["Pause", "Unpause", "Hold", "Unhold"] * 2 +
                       ["Stop", "Start", "Start", "Restart"] + ["Open1", "Open2"] * 2 + ["Keep1", "Keep2"])
INC = st.sampled_from([0.1])


@st.composite
def undone_early_case(draw, cfg: G.GenCfg):
    """Template: a long timed (or untimed) method Pause/Hold that the user releases early, outputs changed afterwards, and the run
    continuing well past the original end of the duration - the history in which a late, redundant Unpause/Unhold would act."""
    reg = draw(st.sampled_from([1, 2]))
    kind = draw(st.sampled_from(["pause", "pause", "pause", "hold"]))
    body = [{"k": "set", "t": None, "reg": reg, "v": draw(st.integers(2, 9))}]
    if draw(st.booleans()):
        body.append({"k": "set", "t": None, "reg": 3 - reg, "v": draw(st.integers(2, 9))})
    body.append({"k": kind, "t": None, "d": draw(st.sampled_from([0.8, 1.0, 1.5, 2.0]))})
    for _ in range(draw(st.integers(1, 3))):
        body.append({"k": "set", "t": None, "reg": draw(st.sampled_from([reg, reg, 3 - reg])), "v": draw(st.integers(2, 9))})
        body.append({"k": "wait", "t": None, "d": draw(st.sampled_from([0.2, 0.5, 1.0]))})
    body += draw(G.children(cfg, 1, False, False, [], min_size=0, max_size=3))
    steps = []
    for _ in range(draw(st.integers(8, 14))):
        op = draw(st.sampled_from(["Unpause", "Unpause", "Unhold", "toggle-pause", "Open1", None, None]))
        if op:
            steps.append(["user", op])
        for _ in range(draw(st.integers(2, 5))):
            steps.append(["tick", 0.1])
    hw_init = {"Out1": float(draw(st.sampled_from([0, 9, 4]))), "Out2": float(draw(st.sampled_from([1, 3, 0])))}
    return {"tree": {"base": cfg.base_first, "body": body}, "steps": steps, "hw_init": hw_init, "autostart": True, "pre_ticks": 0}


@st.composite
def cases(draw, cfg: G.GenCfg = CFG_OUT, with_boom: bool = False, templates: bool = False, faults: bool = False):
    if templates and draw(st.integers(0, 4)) == 0:
        return draw(undone_early_case(cfg))
    tree = draw(G.program(cfg))
    if with_boom and draw(st.integers(0, 5)) == 0:
        pos = draw(st.integers(0, len(tree["body"])))
        tree["body"].insert(pos, {"k": "boom", "t": None})
    steps = []
    for _ in range(draw(st.integers(4, 14))):
        for _ in range(draw(st.integers(0, 2))):
            steps.append(["user", draw(USER)])
        if faults and draw(st.integers(0, 11)) == 0:
            # an error that pauses the run in whatever state it is in (also Holding): one failing hardware read in the next
            # tick or an injected command whose exec raises.  (A failing WRITE is not used here: it is the boundary C08 observes.)
            steps.append(["fault", draw(st.sampled_from(["read", "read", "inject-boom"]))])
        for _ in range(draw(st.integers(1, 6))):
            steps.append(["tick", 0.1])
    hw_init = {"Out1": float(draw(st.sampled_from([0, 9, 4]))), "Out2": float(draw(st.sampled_from([1, 3, 0])))}
    return {"tree": tree, "steps": steps, "hw_init": hw_init, "autostart": draw(st.integers(0, 9)) > 0,
            "pre_ticks": draw(st.integers(0, 3))}


def valid(case) -> bool:
    try:
        if not isinstance(case, dict):
            return False
        render(case["tree"])
        for s in case["steps"]:
            if s[0] == "tick":
                if not (isinstance(s[1], (int, float)) and 0 < s[1] <= 5):
                    return False
            elif s[0] == "user":
                if s[1] not in USER_OPS:
                    return False
            elif s[0] == "fault":
                if s[1] not in ("read", "inject-boom"):
                    return False
            else:
                return False
        hi = case.get("hw_init", {})
        return all(k in ("Out1", "Out2") and isinstance(v, (int, float)) for k, v in hi.items()) \
            and isinstance(case.get("pre_ticks", 0), int) and 0 <= case.get("pre_ticks", 0) <= 5
    except Exception:
        return False


def render(tree):
    """pcode_gen.render + the extra 'boom' node kind (a UOD command whose exec function raises)"""
    body = []
    booms = []

    def strip(nodes):
        out = []
        for n in nodes:
            if n["k"] == "boom":
                out.append({"k": "quick", "t": n.get("t"), "_boom": True})
            else:
                m = dict(n)
                if "c" in m:
                    m["c"] = strip(m["c"])
                out.append(m)
        return out
    t2 = {"base": tree.get("base"), "body": strip(tree["body"])}
    lines = G.render(t2)
    for l in lines:
        if l.node is not None and l.node.get("_boom"):
            l.text = l.text.replace("Quick: q", "Boom: x")
            l.kind = "boom"
    return lines


class Rec:
    """per-tick record"""
    __slots__ = ("no", "state", "prev_state", "mem", "tags", "events", "user_ops", "flags", "prev_flags", "safe_calls",
                 "restart_in_progress", "raised", "status")


def run(case, max_ticks: int = 400):
    """returns (records, harness_info). records[0] is the pseudo record taken right after engine.run()"""
    from vp.harness.engine_h import EngineHarness, OUT_SAFE
    lines = render(case["tree"])
    h = EngineHarness(G.as_method_lines(lines), hw_init=dict(case.get("hw_init", {})))
    e = h.engine
    safe_calls: list = []
    orig_safe = e._apply_safe_state

    def spy_safe():
        safe_calls.append({n: e.tags[n].get_value() for n in OUT_SAFE})
        return orig_safe()
    e._apply_safe_state = spy_safe  # type: ignore
    recs: list[Rec] = []

    def flags():
        return (e._runstate_started, e._runstate_paused, e._runstate_holding)

    def snap(o, prev_state, prev_flags, ev_from, user_ops):
        r = Rec()
        r.no = o.no if o is not None else -1
        r.state = o.state if o is not None else h.state
        r.status = o.status if o is not None else "OK"
        r.prev_state = prev_state
        r.mem = dict(h.hw.mem)
        r.tags = {n: e.tags[n].get_value() for n in ("Out1", "Out2", "Out3")}
        r.events = h.events[ev_from:]
        r.user_ops = user_ops
        r.flags = flags()
        r.prev_flags = prev_flags
        r.safe_calls = list(safe_calls)
        del safe_calls[:]
        r.restart_in_progress = any(q.name == "Restart" for q in e._command_manager.cmd_executing)  # type: ignore
        r.raised = o.raised if o is not None else None
        return r

    info = {"rejected": 0, "accepted": 0}
    try:
        recs.append(snap(None, "Stopped", flags(), 0, []))
        ev_from = len(h.events)
        prev_state, prev_flags = h.state, flags()
        steps = [["tick", 0.1]] * int(case.get("pre_ticks", 0))
        if case.get("autostart", True):
            steps = steps + [["user", "Start"], ["tick", 0.1]]
        steps = steps + list(case["steps"])
        gap_ops: list = []
        for step in steps[:max_ticks]:
            if step[0] == "fault":
                if step[1] == "inject-boom":
                    h.inject("Boom: x")
                else:
                    h.hw.fail_read = True      # lasts one tick
                info["faults"] = info.get("faults", 0) + 1
                continue
            if step[0] == "user":
                name = step[1]
                if name == "toggle-pause":
                    name = "Unpause" if e._runstate_paused else "Pause"
                elif name == "toggle-hold":
                    name = "Unhold" if e._runstate_holding else "Hold"
                try:
                    h.user(name)
                    gap_ops.append(name)
                    info["accepted"] += 1
                except ValueError:
                    info["rejected"] += 1
                continue
            o = h.tick(float(step[1]))
            h.hw.fail_read = False
            r = snap(o, prev_state, prev_flags, ev_from, gap_ops)
            recs.append(r)
            ev_from = len(h.events)
            gap_ops = []
            prev_state, prev_flags = o.state, r.flags
            if o.raised is not None:
                break
    finally:
        h.close()
    info["lines"] = [l.text for l in lines]
    return recs, info
