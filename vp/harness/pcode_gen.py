"""Grammar-based P-code program generator (Hypothesis strategies) for the harness unit.

A program is a JSON tree: node = {"k": kind, ...params, "t": threshold|None, "c": [children]}.
`render(tree)` turns it into method lines [(id, text)] plus per-line metadata; every line carries a
unique payload (Mark: m17, Quick: q17, Slow: 3.017, Block: b17 ...) so each observed effect maps to
exactly one source line without consulting the run log.  Construction, not rejection: no assume().
"""
from __future__ import annotations

from dataclasses import dataclass, field

from hypothesis import strategies as st

LEAF_KINDS = ["mark", "quick", "slow", "ova", "ovb", "set", "flow", "wait", "info", "notify", "incr", "runcounter",
              "batch", "simulate", "simoff", "base", "blank", "comment", "pause", "hold", "unpause", "unhold", "callmacro", "endblock",
              "endblocks", "stop", "restart", "valve"]
CONTAINER_KINDS = ["block", "watch", "alarm", "macro"]


@dataclass
class GenCfg:
    kinds: dict = field(default_factory=lambda: {"mark": 6, "quick": 2, "slow": 2, "wait": 2, "block": 2, "watch": 2,
                                                 "alarm": 1, "macro": 1, "callmacro": 1, "blank": 1, "comment": 1})
    max_depth: int = 3
    max_top: int = 8            # max nodes at top level
    max_children: int = 4
    thresholds: bool = False    # thresholds on main-thread lines
    threshold_max: float = 1.5
    wait_max: float = 1.5
    base_first: str | None = "s"  # emit `Base: s` as the first line (default Base is min)
    trailing_ws: bool = True    # random blank/comment lines at scope ends
    cond_tags: tuple = ("In1", "In2", "Temp")
    always_terminate_blocks: bool = True
    macros_max: int = 2
    pause_durs: tuple = (0.1, 0.2, 0.3, 0.5)   # durations of method-issued Pause/Hold; None = without duration


def _weighted(kinds: dict):
    items = sorted(kinds.items())
    pool = []
    for k, w in items:
        pool.extend([k] * int(w))
    return st.sampled_from(pool)


DUR = st.sampled_from([0.0, 0.05, 0.1, 0.2, 0.25, 0.3, 0.5, 0.7, 1.0, 1.2, 1.5])
COND_CONST = st.sampled_from([0, 1, 2, 3, 5, 8])
OPS = ["<", "<=", ">", ">=", "=", "!="]
UNITS_FOR = {"In1": ["L/h", "L/h", "L/min"], "In2": [None], "Temp": ["degC", "degC", "K", "degF"], "Tot": ["L", "mL"]}


@st.composite
def condition(draw, cfg: GenCfg):
    tag = draw(st.sampled_from(list(cfg.cond_tags)))
    op = draw(st.sampled_from(OPS))
    val = draw(COND_CONST)
    unit = draw(st.sampled_from(UNITS_FOR[tag]))
    return {"tag": tag, "op": op, "val": val, "unit": unit}


def cond_text(c) -> str:
    return "%s %s %s%s" % (c["tag"], c["op"], c["val"], (" " + c["unit"]) if c["unit"] else "")


@st.composite
def node(draw, cfg: GenCfg, depth: int, in_block: bool, in_interrupt: bool, macro_names: list):
    kinds = dict(cfg.kinds)
    if depth <= 0:
        for k in CONTAINER_KINDS:
            kinds.pop(k, None)
    if in_interrupt or depth < cfg.max_depth:
        kinds.pop("macro", None)       # macros are defined at top level only
    if not macro_names:
        kinds.pop("callmacro", None)
    if not in_block:
        kinds.pop("endblock", None)
        kinds.pop("endblocks", None)
    k = draw(_weighted(kinds))
    n: dict = {"k": k, "t": None}
    if cfg.thresholds and not in_interrupt and k not in ("blank", "comment", "macro") and draw(st.integers(0, 3)) == 0:
        n["t"] = draw(st.sampled_from([0.0, 0.1, 0.2, 0.3, 0.5, 0.8, 1.0, 1.5]).filter(lambda x: x <= cfg.threshold_max))
    if k in ("slow", "ova", "ovb"):
        n["n"] = draw(st.integers(1, 4))
    elif k == "set":
        n["reg"] = draw(st.sampled_from([1, 2, 3]))
        n["v"] = draw(st.integers(2, 9))
    elif k == "flow":
        n["v"] = draw(st.integers(1, 9))
        n["unit"] = draw(st.sampled_from(["L/h", "L/min"]))
    elif k == "valve":
        n["opt"] = draw(st.sampled_from(["Open", "Closed"]))
    elif k == "wait":
        n["d"] = draw(DUR.filter(lambda x: x <= cfg.wait_max))
    elif k in ("pause", "hold"):
        n["d"] = draw(st.sampled_from(list(cfg.pause_durs)))
    elif k == "runcounter":
        n["v"] = draw(st.integers(0, 5))
    elif k == "simulate":
        n["tag"] = draw(st.sampled_from(["In1", "In2", "Temp"]))
        n["v"] = draw(COND_CONST)
        n["unit"] = draw(st.sampled_from(UNITS_FOR[n["tag"]]))
    elif k == "simoff":
        n["tag"] = draw(st.sampled_from(["In1", "In2", "Temp"]))
    elif k == "base":
        n["u"] = draw(st.sampled_from(["s", "s", "min", "h", "L"]))
    elif k == "callmacro":
        n["name"] = draw(st.sampled_from(macro_names))
    elif k in ("watch", "alarm"):
        n["cond"] = draw(condition(cfg))
        n["c"] = draw(children(cfg, depth - 1, in_block, True, macro_names, min_size=1))
    elif k == "block":
        body = draw(children(cfg, depth - 1, True, in_interrupt, macro_names, min_size=0))
        n["c"] = body
        n["end"] = draw(st.sampled_from(["endblock", "endblock", "endblock", "endblocks"]))   # implicit terminator
        n["end_t"] = draw(st.sampled_from([None, None, 0.3, 0.6])) if cfg.thresholds and not in_interrupt else None
    elif k == "macro":
        n["name"] = "M%d" % (len(macro_names) + 1)
        n["c"] = draw(children(cfg, depth - 1, False, in_interrupt, [m for m in macro_names], min_size=1))
    return n


@st.composite
def children(draw, cfg: GenCfg, depth: int, in_block: bool, in_interrupt: bool, macro_names: list, min_size=0, max_size=None):
    n = draw(st.integers(min_size, max_size if max_size is not None else cfg.max_children))
    out = []
    names = list(macro_names)
    for _ in range(n):
        nd = draw(node(cfg, depth, in_block, in_interrupt, names))
        if nd["k"] == "macro":
            if len(names) >= cfg.macros_max:
                nd = {"k": "mark", "t": None}
            else:
                names.append(nd["name"])
        out.append(nd)
    if cfg.trailing_ws and draw(st.integers(0, 4)) == 0:
        for _ in range(draw(st.integers(1, 2))):
            out.append({"k": draw(st.sampled_from(["blank", "comment"])), "t": None})
    return out


@st.composite
def program(draw, cfg: GenCfg):
    body = draw(children(cfg, cfg.max_depth, False, False, [], min_size=1, max_size=cfg.max_top))
    return {"base": cfg.base_first, "body": body}


# ---------------------------------------------------------------------------------------------
# rendering
# ---------------------------------------------------------------------------------------------

@dataclass
class Line:
    id: str
    text: str
    kind: str
    payload: str | None      # unique effect payload (mark text, command argument, block name ...)
    depth: int
    parent: str | None       # id of parent line
    node: dict | None = None
    implicit: bool = False   # terminator emitted by a block


def render(tree: dict, id_prefix: str = "n") -> list[Line]:
    lines: list[Line] = []

    def nid():
        return "%s%d" % (id_prefix, len(lines) + 1)

    def emit(text, kind, payload, depth, parent, node=None, implicit=False, thr=None):
        i = nid()
        pre = ("%s " % _fmt(thr)) if thr is not None else ""
        lines.append(Line(i, "    " * depth + pre + text, kind, payload, depth, parent, node, implicit))
        return i

    def walk(nodes, depth, parent):
        for n in nodes:
            k = n["k"]
            N = len(lines) + 1
            t = n.get("t")
            if k == "mark":
                emit("Mark: m%d" % N, k, "m%d" % N, depth, parent, n, thr=t)
            elif k == "quick":
                emit("Quick: q%d" % N, k, "q%d" % N, depth, parent, n, thr=t)
            elif k in ("slow", "ova", "ovb"):
                arg = "%d.%03d" % (n["n"], N)
                emit("%s: %s" % ({"slow": "Slow", "ova": "OvA", "ovb": "OvB"}[k], arg), k, arg, depth, parent, n, thr=t)
            elif k == "set":
                arg = "%d.%03d" % (n["v"], N)
                emit("Set%d: %s" % (n["reg"], arg), k, arg, depth, parent, n, thr=t)
            elif k == "flow":
                arg = "%d.%03d %s" % (n["v"], N, n["unit"])
                emit("Flow: " + arg, k, arg, depth, parent, n, thr=t)
            elif k == "valve":
                emit("Valve: " + n["opt"], k, n["opt"], depth, parent, n, thr=t)
            elif k == "wait":
                emit("Wait: %ss" % _fmt(n["d"]), k, None, depth, parent, n, thr=t)
            elif k in ("pause", "hold"):
                emit(k.capitalize() if n.get("d") is None else "%s: %ss" % (k.capitalize(), _fmt(n["d"])), k, None, depth, parent, n, thr=t)
            elif k in ("unpause", "unhold"):
                emit(k.capitalize(), k, None, depth, parent, n, thr=t)
            elif k == "info":
                emit("Info: i%d" % N, k, "i%d" % N, depth, parent, n, thr=t)
            elif k == "notify":
                emit("Notify: y%d" % N, k, "y%d" % N, depth, parent, n, thr=t)
            elif k == "incr":
                emit("Increment run counter", k, None, depth, parent, n, thr=t)
            elif k == "runcounter":
                emit("Run counter: %d" % n["v"], k, None, depth, parent, n, thr=t)
            elif k == "batch":
                emit("Batch: B%d" % N, k, "B%d" % N, depth, parent, n, thr=t)
            elif k == "simulate":
                emit("Simulate: %s = %s%s" % (n["tag"], n["v"], (" " + n["unit"]) if n["unit"] else ""), k, None, depth, parent, n, thr=t)
            elif k == "simoff":
                emit("Simulate off: %s" % n["tag"], k, None, depth, parent, n, thr=t)
            elif k == "base":
                emit("Base: %s" % n["u"], k, None, depth, parent, n, thr=t)
            elif k == "callmacro":
                emit("Call macro: %s" % n["name"], k, n["name"], depth, parent, n, thr=t)
            elif k == "endblock":
                emit("End block", k, None, depth, parent, n, thr=t)
            elif k == "endblocks":
                emit("End blocks", k, None, depth, parent, n, thr=t)
            elif k == "stop":
                emit("Stop", k, None, depth, parent, n, thr=t)
            elif k == "restart":
                emit("Restart", k, None, depth, parent, n, thr=t)
            elif k == "blank":
                emit("", k, None, depth, parent, n)
            elif k == "comment":
                emit("# c%d" % N, k, None, depth, parent, n)
            elif k in ("watch", "alarm"):
                i = emit("%s: %s" % (k.capitalize(), cond_text(n["cond"])), k, None, depth, parent, n, thr=t)
                walk(n.get("c", []), depth + 1, i)
            elif k == "block":
                i = emit("Block: b%d" % N, k, "b%d" % N, depth, parent, n, thr=t)
                walk(n.get("c", []), depth + 1, i)
                if n.get("end"):
                    emit("End block" if n["end"] == "endblock" else "End blocks", n["end"], None, depth + 1, i,
                         {"k": n["end"], "t": n.get("end_t")}, implicit=True, thr=n.get("end_t"))
            elif k == "macro":
                i = emit("Macro: %s" % n["name"], k, n["name"], depth, parent, n, thr=t)
                walk(n.get("c", []), depth + 1, i)
            else:
                raise ValueError("unknown node kind %r" % k)

    if tree.get("base"):
        emit("Base: %s" % tree["base"], "base", None, 0, None, {"k": "base", "u": tree["base"], "t": None})
    walk(tree["body"], 0, None)
    return lines


def _fmt(x) -> str:
    s = ("%.3f" % x).rstrip("0").rstrip(".")
    return s if s else "0"


def as_method_lines(lines: list[Line]) -> list[tuple]:
    return [(l.id, l.text) for l in lines]


def text_of(lines: list[Line]) -> list[str]:
    return [l.text for l in lines]


def count_kinds(tree) -> dict:
    out: dict = {}

    def w(nodes, depth):
        for n in nodes:
            out[n["k"]] = out.get(n["k"], 0) + 1
            out["_depth"] = max(out.get("_depth", 0), depth)
            if "c" in n:
                w(n["c"], depth + 1)
    w(tree["body"], 1)
    return out


# input trajectories: list of change points [tick, {tag: value}] ---------------------------------

@st.composite
def trajectory(draw, n_ticks: int, tags=("In1", "In2", "Temp"), max_changes: int = 6):
    k = draw(st.integers(0, max_changes))
    pts = []
    for _ in range(k):
        tick = draw(st.integers(0, max(0, n_ticks - 1)))
        tag = draw(st.sampled_from(list(tags)))
        val = float(draw(st.sampled_from([0, 1, 2, 3, 4, 5, 6, 8, 10])))
        pts.append([tick, {tag: val}])
    pts.sort(key=lambda p: p[0])
    return pts


def traj_at(pts, tick: int) -> dict:
    """input changes to apply before the given tick"""
    out = {}
    for t, d in pts:
        if t == tick:
            out.update(d)
    return out
