"""Shared helper of C01 / C14: flat method model, edit scripts resolved at the edit tick from the reported method
state, injected snippets, scripted runs on the EngineHarness and effect extraction.

A *script* is a list of ops applied before harness tick `tick` (tick >= 1; tick 0 executes Start):
    {"op": "edit",   "tick": t, "kind": K, "idx": i, "payload": [leaf, ...]}
    {"op": "inject", "tick": t, "snippet": [node, ...]}
    {"op": "user",   "tick": t, "name": "Pause"|"Unpause"|"Hold"|"Unhold"}
Edit kinds (K): append_end, append_scope, change, insert, delete, ws, change_started.  Targets are chosen at run time:
`idx` modulo the number of lines eligible under the method state reported at that moment (DESIGN 2.6), so a case is
plain JSON.  Nothing here judges; the oracles live in vp/props/c01.py and c14.py.
"""
from __future__ import annotations

import re

from hypothesis import strategies as st

from vp.harness import pcode_gen as G
from vp.harness import engine_h as _engine_h   # noqa: F401  imported here (by the parent, before the shard processes fork):
#                                                the openpectus import costs seconds of CPU and would otherwise be paid per shard

CONTAINERS = ("Block", "Watch", "Alarm", "Macro")
EDIT_KINDS = ("append_end", "append_scope", "change", "insert", "delete", "ws", "change_started", "reindent_started",
              "append_macro")
USER_CMDS = ("Pause", "Unpause", "Hold", "Unhold")
QUIET_TICKS = 20      # > longest generated Wait / threshold (1.5 s = 15 ticks)
MAX_TICKS = 400

_THR = re.compile(r"^(\d+(?:\.\d+)?)\s+(\S.*)$")


# ------------------------------------------------------------------------------------------------
# flat method model: lines = [[id, text], ...]
# ------------------------------------------------------------------------------------------------

def depth_of(text: str) -> int:
    return (len(text) - len(text.lstrip(" "))) // 4


def split_line(text: str):
    """-> (threshold|None, instruction, argument)   ('', '' for blank lines, 'Comment' for comment lines)"""
    s = text.strip()
    if s == "":
        return None, "", ""
    if s.startswith("#"):
        return None, "Comment", s
    thr = None
    m = _THR.match(s)
    if m:
        thr, s = float(m.group(1)), m.group(2)
    if "#" in s:
        s = s.split("#", 1)[0].rstrip()
    if ":" in s:
        a, b = s.split(":", 1)
        return thr, a.strip(), b.strip()
    return thr, s, ""


def line_key(text: str) -> str | None:
    """effect key of a line: what the ground-truth effect log shows when the line runs (None: no logged effect)"""
    _, ins, arg = split_line(text)
    if ins == "Mark":
        return "mark:" + arg
    if ins in ("Quick", "Slow", "OvA", "OvB", "Set1", "Set2", "Set3"):
        return "cmd:%s:%s" % (ins, arg)
    return None


class Struct:
    """structure of one version of a method (derived from indentation)"""

    def __init__(self, lines):
        self.lines = [list(l) for l in lines]
        n = len(self.lines)
        self.depth = [depth_of(t) for _, t in self.lines]
        self.ins = [split_line(t)[1] for _, t in self.lines]
        self.parent: list[int | None] = [None] * n
        stack: list[int] = []
        for i in range(n):
            while stack and self.depth[stack[-1]] >= self.depth[i]:
                stack.pop()
            self.parent[i] = stack[-1] if stack else None
            if self.ins[i] in CONTAINERS:
                stack.append(i)
        self.index = {lid: i for i, (lid, _) in enumerate(self.lines)}

    def subtree_end(self, i: int) -> int:
        j = i + 1
        while j < len(self.lines) and self.depth[j] > self.depth[i]:
            j += 1
        return j

    def children(self, i: int | None) -> list[int]:
        return [j for j in range(len(self.lines)) if self.parent[j] == i]

    def ancestors(self, i: int) -> list[int]:
        out = []
        p = self.parent[i]
        while p is not None:
            out.append(p)
            p = self.parent[p]
        return out

    def info(self, i: int) -> dict:
        anc = self.ancestors(i)
        anc_ins = [self.ins[a] for a in anc]
        thread = "main"
        intr_in_block = False
        for k, a in enumerate(anc):
            if self.ins[a] in ("Watch", "Alarm"):
                thread = self.lines[a][0]
                intr_in_block = "Block" in anc_ins[k + 1:]
                break
            if self.ins[a] == "Macro":
                thread = "macro:" + self.lines[a][0]
                break
        return {"repeating": ("Alarm" in anc_ins) or ("Macro" in anc_ins), "thread": thread,
                "intr_in_block": intr_in_block, "in_block": "Block" in anc_ins, "in_alarm": "Alarm" in anc_ins,
                "in_macro": "Macro" in anc_ins}

    def has_interrupt_in_block(self) -> bool:
        return any(self.ins[i] in ("Watch", "Alarm") and any(self.ins[a] == "Block" for a in self.ancestors(i))
                   for i in range(len(self.lines)))

    def macro_called_from_interrupt(self) -> bool:
        return any(self.ins[i] == "Call macro" and any(self.ins[a] in ("Watch", "Alarm", "Macro") for a in self.ancestors(i))
                   for i in range(len(self.lines)))


# ------------------------------------------------------------------------------------------------
# new lines for edits and injected snippets
# ------------------------------------------------------------------------------------------------

LEAF = st.one_of(
    st.just({"k": "mark"}), st.just({"k": "mark"}), st.just({"k": "quick"}),
    st.builds(lambda n: {"k": "slow", "n": n}, st.integers(1, 3)),
    st.builds(lambda d: {"k": "wait", "d": d}, st.sampled_from([0.0, 0.1, 0.2, 0.3, 0.5])),
    st.just({"k": "blank"}), st.just({"k": "comment"}))


def leaf_text(leaf: dict, num: int, long_cmd: str = "Slow", quick_cmd: str = "Quick") -> str:
    k = leaf.get("k")
    if k == "mark":
        return "Mark: e%d" % num
    if k == "quick":
        return "%s: %s" % (quick_cmd, ("e%d" % num) if quick_cmd == "Quick" else "%d.%03d" % (2 + num % 7, num))
    if k == "slow":
        if long_cmd is None:       # no long-running command name left for this snippet: an instant command instead
            return "%s: %d.%03d" % (quick_cmd, 2 + num % 7, num)
        return "%s: %d.%03d" % (long_cmd, int(leaf.get("n", 1)), num)
    if k == "wait":
        return "Wait: %ss" % G._fmt(float(leaf.get("d", 0.1)))
    if k == "comment":
        return "# e%d" % num
    return ""


def valid_leaf(leaf) -> bool:
    if not isinstance(leaf, dict) or leaf.get("k") not in ("mark", "quick", "slow", "wait", "blank", "comment"):
        return False
    if leaf["k"] == "slow" and not (isinstance(leaf.get("n"), int) and 1 <= leaf["n"] <= 9):
        return False
    if leaf["k"] == "wait" and not (isinstance(leaf.get("d"), (int, float)) and 0 <= leaf["d"] <= 1.5):
        return False
    return True


SNIP_LEAF = st.one_of(
    st.just({"k": "mark"}), st.just({"k": "mark"}), st.just({"k": "quick"}),
    st.builds(lambda n: {"k": "slow", "n": n}, st.integers(1, 4)),
    st.builds(lambda d: {"k": "wait", "d": d}, st.sampled_from([0.0, 0.1, 0.2, 0.3, 0.5])))


def snippet_strategy(allow_block: bool, min_slow: bool = False):
    @st.composite
    def _s(draw):
        n = draw(st.integers(1, 3))
        nodes = [draw(SNIP_LEAF) for _ in range(n)]
        if allow_block and draw(st.integers(0, 3)) == 0:
            body = [draw(SNIP_LEAF) for _ in range(draw(st.integers(0, 2)))]
            nodes.insert(draw(st.integers(0, len(nodes))), {"k": "block", "c": body})
        if min_slow and not any(x["k"] == "slow" and x["n"] >= 2 for x in nodes):
            nodes.insert(0, {"k": "slow", "n": draw(st.integers(2, 4))})
        return nodes
    return _s()


def valid_snippet(sn) -> bool:
    if not isinstance(sn, list) or not (1 <= len(sn) <= 8):
        return False
    for x in sn:
        if isinstance(x, dict) and x.get("k") == "block":
            if not isinstance(x.get("c"), list) or not all(valid_leaf(y) and y["k"] not in ("blank", "comment") for y in x["c"]):
                return False
        elif not (valid_leaf(x) and x["k"] not in ("blank", "comment")):
            return False
    return True


def render_snippet(sn, base: int, long_cmd: str, quick_cmd: str):
    """-> (pcode text, [effect keys in source order], has_block).  Payload numbers base, base+1, ... are unique."""
    out, keys = [], []
    num = [base]

    def leaf(x, d):
        t = leaf_text(x, num[0], long_cmd, quick_cmd)
        num[0] += 1
        out.append("    " * d + t)
        k = line_key(t)
        if k:
            keys.append(k)
    has_block = False
    for x in sn:
        if x["k"] == "block":
            has_block = True
            out.append("Block: ib%d" % num[0])
            num[0] += 1
            for y in x["c"]:
                leaf(y, 1)
            out.append("    End block")
        else:
            leaf(x, 0)
    return "\n".join(out), keys, has_block


# ------------------------------------------------------------------------------------------------
# edit resolution
# ------------------------------------------------------------------------------------------------

def _changed_started_text(text: str) -> str | None:
    """a non-whitespace change of the line's meaning, indentation kept"""
    ind = text[: len(text) - len(text.lstrip(" "))]
    thr, ins, arg = split_line(text)
    pre = ("%s " % G._fmt(thr)) if thr is not None else ""
    if ins in ("Mark", "Quick", "Block", "Info", "Batch"):
        return "%s%s%s: %sx" % (ind, pre, ins, arg)
    if ins in ("Slow", "OvA", "OvB", "Set1", "Set2", "Set3"):
        return "%s%s%s: %s1" % (ind, pre, ins, arg)
    if ins == "Wait":
        return "%s%sWait: 0.7s" % (ind, pre) if arg != "0.7s" else "%s%sWait: 0.8s" % (ind, pre)
    if ins in ("Watch", "Alarm"):
        m = re.match(r"^(\S+)\s+(\S+)\s+(\d+)(.*)$", arg)
        if not m:
            return None
        return "%s%s%s: %s %s %d%s" % (ind, pre, ins, m.group(1), m.group(2), int(m.group(3)) + 1, m.group(4))
    if ins == "End block":
        return "%s%sEnd blocks" % (ind, pre)
    if ins == "End blocks":
        return "%s%sEnd block" % (ind, pre)
    if ins == "Base":
        return "%s%sBase: %s" % (ind, pre, "min" if arg != "min" else "s")
    return None


def called_macros(S: "Struct", ms: dict) -> list[int]:
    """indexes of Macro lines that the REPORTED method state shows as started executing: a body line is started/executed/
    failed, or a 'Call macro' line naming it is executed.  (Under-approximation: a call whose first body line still awaits
    its threshold, or whose state an Alarm re-arm has cleared, is not counted.)"""
    touched = (ms["started"] | ms["executed"] | ms["failed"]) - {"root"}
    out = []
    for i in range(len(S.lines)):
        if S.ins[i] != "Macro":
            continue
        name = split_line(S.lines[i][1])[2]
        body = any(S.lines[j][0] in touched for j in range(i + 1, S.subtree_end(i)))
        call = any(S.ins[j] == "Call macro" and split_line(S.lines[j][1])[2] == name and S.lines[j][0] in ms["executed"]
                   and j >= S.subtree_end(i) for j in range(len(S.lines)))
        if body or call:
            out.append(i)
    return out


def macro_source(S: "Struct", i: int) -> list[str]:
    """the significant (non blank, non comment) lines of a macro, without surrounding whitespace, with their relative depth"""
    return ["%d|%s" % (S.depth[j] - S.depth[i], S.lines[j][1].strip()) for j in range(i, S.subtree_end(i))
            if S.ins[j] not in ("", "Comment")]


def resolve_edit(lines, ms: dict, op: dict, edit_no: int, long_cmd="Slow", quick_cmd="Quick"):
    """-> (new_lines | None, info).  info additionally says whether the edit changes the source of a macro that has started
    executing (info["started_macro_edit"] = [macro line ids]); such an edit, like a change of a started line, must be rejected."""
    new, info = _resolve_edit(lines, ms, op, edit_no, long_cmd, quick_cmd)
    info["started_macro_edit"] = []
    if new is not None:
        S, N = Struct(lines), Struct(new)
        for i in called_macros(S, ms):
            j = N.index.get(lines[i][0])
            if j is None or N.ins[j] != "Macro" or macro_source(S, i) != macro_source(N, j):
                info["started_macro_edit"].append(lines[i][0])
        if info["started_macro_edit"]:
            info["expect_reject"] = True
    return new, info


def _resolve_edit(lines, ms: dict, op: dict, edit_no: int, long_cmd="Slow", quick_cmd="Quick"):
    """lines: current [[id, text]]; ms: {"started": set, "executed": set, "failed": set}.
    -> (new_lines | None, info) ; info: kind (after fallbacks), target id, target_touched, expect_reject, nested, ..."""
    S = Struct(lines)
    touched = (ms["started"] | ms["executed"] | ms["failed"]) - {"root"}
    n = len(lines)
    kind = op["kind"]
    idx = int(op.get("idx", 0))
    base = 500 + 10 * edit_no      # edit_no = op index + 1 (<= 12): payload numbers 510..629, injected 800..919
    payload = [p for p in op.get("payload", []) if valid_leaf(p)][:3] or [{"k": "mark"}]
    info = {"kind": kind, "target": None, "touched": False, "expect_reject": False, "nested": False, "fallback": None}

    def new_lines_at(depth, items):
        return [["e%d_%d" % (edit_no, j), "    " * depth + leaf_text(p, base + j, long_cmd, quick_cmd)] for j, p in enumerate(items)]

    def untouched_subtree(i):
        return all(lines[j][0] not in touched for j in range(i, S.subtree_end(i)))

    if kind == "append_macro":
        # append instructions at the end of a macro body: preferably of a macro that has started executing (must be rejected),
        # else of any macro (an ordinary edit), else at the end of the method
        called = called_macros(S, ms)
        cand = called or [i for i in range(n) if S.ins[i] == "Macro"]
        if cand:
            i = cand[idx % len(cand)]
            items = [q if q["k"] not in ("blank", "comment") else {"k": "mark"} for q in payload[:1]] + payload[1:]
            pos = S.subtree_end(i)
            while pos - 1 > i and S.ins[pos - 1] in ("", "Comment"):
                pos -= 1          # behind the last instruction of the body, in front of trailing blank/comment lines
            info.update(target=lines[i][0], touched=lines[i][0] in touched, nested=True, macro_called=bool(called))
            return lines[:pos] + new_lines_at(S.depth[i] + 1, items) + lines[pos:], info
        info["fallback"] = "append_end"
        kind = info["kind"] = "append_end"
    if kind == "reindent_started":
        # change ONLY the indentation of a started line so that it moves into another scope:
        #  'in'  - the line follows a Block/Watch/Alarm/Macro of its own depth: indent it (and its subtree) into that body
        #  'out' - the line is the last child of its parent (which keeps another instruction): de-indent it behind the parent
        cand = []
        for i in range(n):
            if lines[i][0] not in (ms["started"] | ms["executed"]) or S.ins[i] in ("", "Comment"):
                continue
            prev = [j for j in range(i) if S.parent[j] == S.parent[i]]
            if prev and S.ins[prev[-1]] in CONTAINERS and S.subtree_end(prev[-1]) == i and S.children(prev[-1]):
                cand.append((i, "in"))
            par = S.parent[i]
            if par is not None and S.subtree_end(i) == S.subtree_end(par) and \
                    [j for j in S.children(par) if j != i and S.ins[j] not in ("", "Comment")]:
                cand.append((i, "out"))
        if not cand:
            info["fallback"] = "none"
            return None, info
        i, how = cand[idx % len(cand)]
        new = [list(l) for l in lines]
        for j in range(i, S.subtree_end(i)):
            new[j][1] = ("    " + lines[j][1]) if how == "in" else lines[j][1][4:]
        info.update(target=lines[i][0], touched=True, expect_reject=True, nested=True, reindent=how)
        return new, info
    if kind == "append_scope":
        cand = [i for i in range(n) if S.ins[i] in CONTAINERS and lines[i][0] not in ms["executed"] and lines[i][0] not in ms["failed"]]
        if cand:
            i = cand[idx % len(cand)]
            end = S.subtree_end(i)
            ch = S.children(i)
            pos = end
            if S.ins[i] == "Block" and ch and S.ins[ch[-1]] in ("End block", "End blocks") and lines[ch[-1]][0] not in touched:
                pos = ch[-1]      # keep the block's terminator last
            # never insert behind trailing whitespace-only lines of the scope in front of a started one: plain list insert
            info.update(target=lines[i][0], touched=lines[i][0] in touched, nested=True)
            new = lines[:pos] + new_lines_at(S.depth[i] + 1, payload) + lines[pos:]
            return new, info
        info["fallback"] = "append_end"
        kind = info["kind"] = "append_end"
    if kind == "append_end":
        return lines + new_lines_at(0, payload), info
    if kind == "change":
        cand = [i for i in range(n) if lines[i][0] not in touched and S.ins[i] in ("Mark", "Quick", "Slow", "Wait", "", "Comment")
                and S.subtree_end(i) == i + 1]
        if not cand:
            info["fallback"] = "none"
            return None, info
        i = cand[idx % len(cand)]
        new = [list(l) for l in lines]
        leaf = payload[0]
        par = S.parent[i]
        if leaf["k"] in ("blank", "comment") and par is not None and S.ins[par] != "Block" and \
                not [j for j in S.children(par) if j != i and S.ins[j] not in ("", "Comment")]:
            leaf = {"k": "mark"}      # the body of a Watch/Alarm/Macro keeps at least one instruction (else: known finding C17)
        new[i][1] = "    " * S.depth[i] + leaf_text(leaf, base, long_cmd, quick_cmd)
        info.update(target=lines[i][0], nested=S.depth[i] > 0, same_class=split_line(new[i][1])[1] == S.ins[i],
                    old_ws=S.ins[i] in ("", "Comment"))
        if new[i][1] == lines[i][1]:
            info["fallback"] = "none"
            return None, info
        return new, info
    if kind == "insert":
        cand = [i for i in range(n) if lines[i][0] not in touched]
        if not cand:
            info["fallback"] = "none"
            return None, info
        i = cand[idx % len(cand)]
        info.update(target=lines[i][0], nested=S.depth[i] > 0)
        return lines[:i] + new_lines_at(S.depth[i], payload) + lines[i:], info
    if kind == "delete":
        cand = []
        for i in range(n):
            if S.ins[i] in ("End block", "End blocks", "Macro", "Base") or not untouched_subtree(i):
                continue
            sib = [j for j in S.children(S.parent[i]) if S.ins[j] not in ("", "Comment", "End block", "End blocks")]
            if S.ins[i] in ("", "Comment") or len(sib) >= 2:
                cand.append(i)
        if not cand:
            info["fallback"] = "none"
            return None, info
        i = cand[idx % len(cand)]
        info.update(target=lines[i][0], nested=S.depth[i] > 0)
        return lines[:i] + lines[S.subtree_end(i):], info
    if kind == "ws":
        cand = [i for i in range(n) if S.ins[i] not in ("",)]
        if not cand:
            info["fallback"] = "none"
            return None, info
        i = cand[idx % len(cand)]
        new = [list(l) for l in lines]
        new[i][1] = lines[i][1] + "  "
        info.update(target=lines[i][0], touched=lines[i][0] in touched, nested=S.depth[i] > 0)
        return new, info
    if kind == "change_started":
        # lines reported as started or executed; a line reported as FAILED is not a must-reject target (editing the failed line
        # is the engine's way out of a method error)
        cand = [i for i in range(n) if lines[i][0] in (ms["started"] | ms["executed"]) - {"root"}
                and _changed_started_text(lines[i][1]) is not None]
        if not cand:
            info["fallback"] = "none"
            return None, info
        i = cand[idx % len(cand)]
        new = [list(l) for l in lines]
        new[i][1] = _changed_started_text(lines[i][1])
        info.update(target=lines[i][0], touched=True, expect_reject=True, nested=S.depth[i] > 0)
        return new, info
    info["fallback"] = "none"
    return None, info


def valid_ops(ops) -> bool:
    if not isinstance(ops, list) or len(ops) > 12:
        return False
    for o in ops:
        if not isinstance(o, dict) or not isinstance(o.get("tick"), int) or not (1 <= o["tick"] <= 300):
            return False
        if o.get("op") == "edit":
            if o.get("kind") not in EDIT_KINDS or not isinstance(o.get("idx"), int) or o["idx"] < 0:
                return False
            if not isinstance(o.get("payload"), list) or not all(valid_leaf(p) for p in o["payload"]):
                return False
        elif o.get("op") == "inject":
            if not valid_snippet(o.get("snippet")):
                return False
        elif o.get("op") == "user":
            if o.get("name") not in USER_CMDS:
                return False
        else:
            return False
    return True


# ------------------------------------------------------------------------------------------------
# scripted run
# ------------------------------------------------------------------------------------------------

def ms_sets(ms) -> dict:
    return {"started": set(ms.started_line_ids), "executed": set(ms.executed_line_ids), "failed": set(ms.failed_line_ids)}


def run_script(lines0, traj, ops, *, edit_cmds=("Slow", "Quick"), inj_cmds=("Slow", "Quick"), skip_op: int | None = None,
               n_ticks: int | None = None, drop_edits: bool = False, drop_injects: bool = False):
    """Runs method `lines0` with the script.  n_ticks=None: run until QUIET_TICKS quiet ticks after the last op (or
    MAX_TICKS); else exactly n_ticks ticks after Start.  skip_op: index (in `ops`) of one op left out (twin runs).
    Returns a dict (see bottom)."""
    from vp.harness.engine_h import EngineHarness, MethodEditError
    from vp.harness.pcode_gen import traj_at
    lines = [list(l) for l in lines0]
    h = EngineHarness([tuple(l) for l in lines])
    res: dict = {"edits": [], "injects": [], "users": [], "state_before": {}, "raised": None, "versions": [[list(l) for l in lines]]}
    try:
        todo = sorted([(o["tick"], i) for i, o in enumerate(ops)
                       if i != skip_op and not (drop_edits and o["op"] == "edit") and not (drop_injects and o["op"] == "inject")])
        # from the same tick on in every twin (also when an op is left out): the rest of the run is kept able to progress
        last_op_tick = max([o["tick"] for o in ops], default=0)
        # injected lines are not part of the reported method state: their Waits look like silence, so the quiet window grows
        # by everything an injected snippet can legitimately spend
        quiet_need = QUIET_TICKS
        for o in ops:
            if o["op"] == "inject":
                for x in o["snippet"]:
                    for y in [x] + list(x.get("c", [])):
                        quiet_need += 3 + (int(round(float(y.get("d", 0)) * 10)) if y.get("k") == "wait" else 0)
        h.set_inputs(**traj_at(traj, 0))
        o0 = h.start()
        res["state_before"][0] = "Stopped"
        prev_state = o0.state
        quiet = 0
        ev_idx = len(h.events)
        prev_ms = None
        t = 0
        while True:
            t += 1
            if n_ticks is not None and t > n_ticks:
                break
            if n_ticks is None and (t > MAX_TICKS or (t > last_op_tick and quiet >= quiet_need)):
                break
            inp = traj_at(traj, t)
            if inp:
                h.set_inputs(**inp)
            for tk, i in todo:
                if tk != t:
                    continue
                o = ops[i]
                quiet = 0          # quiescence is counted from the last op on
                if o["op"] == "user":
                    try:
                        h.user(o["name"])
                        res["users"].append((t, o["name"], True))
                    except ValueError:
                        res["users"].append((t, o["name"], False))
                elif o["op"] == "inject":
                    # inj_cmds: one (long, quick) pair, or a list of pairs indexed by the ordinal of the injection in `ops`
                    # (a name is used by one snippet only: same-name commands cancel each other)
                    ic = inj_cmds
                    if isinstance(inj_cmds, list):
                        ordinal = len([1 for k2, o2 in enumerate(ops) if o2["op"] == "inject" and k2 < i])
                        ic = inj_cmds[min(ordinal, len(inj_cmds) - 1)]
                    pcode, keys, has_block = render_snippet(o["snippet"], 800 + 10 * i, ic[0], ic[1])
                    before = ms_sets(h.method_state())
                    running_cmds = sorted(h.uod.command_instances.keys()) if hasattr(h.uod, "command_instances") else []
                    state_at = h.state
                    refused = None
                    try:
                        h.inject(pcode)
                    except Exception as ex:      # the engine's answer to the inject request (well-formed snippet): recorded, judged by C14
                        refused = "%s: %s" % (type(ex).__name__, str(ex)[:160])
                    res["injects"].append({"op": i, "tick": t, "pcode": pcode, "keys": keys, "has_block": has_block,
                                           "ms_before": before, "cmds_running": running_cmds, "state": state_at, "refused": refused,
                                           "state_after": h.state, "status_after": str(h.tagv("Method Status"))})
                elif o["op"] == "edit":
                    before = ms_sets(h.method_state())
                    new, info = resolve_edit(lines, before, o, i + 1, edit_cmds[0], edit_cmds[1])
                    rec = {"op": i, "tick": t, "info": info, "ms_before": before, "old_lines": [list(l) for l in lines],
                           "new_lines": new, "accepted": None, "error": None, "ret": None,
                           "cmds_running": sorted(h.uod.command_instances.keys()),
                           "intr_before": len(h.engine.interpreter.interrupts),
                           "method_end_seen": any(e[1] == "method_end" for e in h.events), "state": h.state}
                    if new is not None:
                        try:
                            rec["ret"] = h.set_method([tuple(l) for l in new])
                            rec["accepted"] = True
                            lines = [list(l) for l in new]
                            res["versions"].append([list(l) for l in lines])
                        except MethodEditError as ex:
                            rec["accepted"] = False
                            rec["error"] = str(ex)[:200]
                        rec["ms_after"] = ms_sets(h.method_state())
                        rec["text_after"] = [[l.id, l.content] for l in h.engine.method_manager._method.lines]
                    res["edits"].append(rec)
            if t > last_op_tick:
                # the rest of the run must be able to progress: leave pause/hold states the script left behind
                if h.engine._runstate_paused:
                    try:
                        h.user("Unpause")
                    except ValueError:
                        pass
                if h.engine._runstate_holding:
                    try:
                        h.user("Unhold")
                    except ValueError:
                        pass
            res["state_before"][t] = prev_state
            ob = h.tick()
            prev_state = ob.state
            if ob.raised is not None and res["raised"] is None:
                res["raised"] = (t, repr(ob.raised))
            new_ev = h.events[ev_idx:]
            ev_idx = len(h.events)
            cur_ms = ms_sets(h.method_state())
            busy = any(e[1] in ("mark", "cmd") for e in new_ev) or cur_ms != prev_ms or ob.state != "Running"
            quiet = 0 if busy else quiet + 1
            prev_ms = cur_ms
        res.update(events=list(h.events), final_lines=lines, final_ms=ms_sets(h.method_state()), n_ticks=t - 1,
                   quiet=quiet >= quiet_need, final_state=prev_state, final_status=str(h.tagv("Method Status")),
                   cmds_left=sorted(h.uod.command_instances.keys()),
                   error_events=[e for e in h.events if e[1] == "method_error"])
    finally:
        h.close()
    return res


# ------------------------------------------------------------------------------------------------
# effects
# ------------------------------------------------------------------------------------------------

def effects(events):
    """-> (starts, life): starts = [(tick, key)] in log order (Mark assignment; first exec of a command instance);
    life = {key: {"inst": n instances, "init": n, "exec": n, "fin": n}}"""
    inst_key: dict = {}
    for e in events:
        if e[1] == "cmd" and e[4] == "exec" and e[3] not in inst_key:
            inst_key[e[3]] = "cmd:%s:%s" % (e[2], str(e[5]).strip())
    starts, life, seen = [], {}, set()
    for e in events:
        if e[1] == "mark":
            starts.append((e[0], "mark:" + str(e[2]).strip()))
        elif e[1] == "cmd":
            k = inst_key.get(e[3])
            if k is None:
                continue
            d = life.setdefault(k, {"inst": 0, "init": 0, "exec": 0, "fin": 0})
            if e[4] == "exec":
                if e[3] not in seen:
                    seen.add(e[3])
                    d["inst"] += 1
                    starts.append((e[0], k))
                d["exec"] += 1
            elif e[4] == "init":
                d["init"] += 1
            elif e[4] == "finalize":
                d["fin"] += 1
    return starts, life


def norm_events(events, kinds=("mark", "cmd", "out_set", "method_error", "method_end", "block_start", "block_end",
                               "scope_start", "scope_activate", "scope_end", "runstate")):
    """event log with instance ids replaced by their order of first appearance (uuids come from a global counter)"""
    ids: dict = {}
    out = []
    for e in events:
        if e[1] not in kinds:
            continue
        if e[1] == "cmd":
            out.append((e[0], "cmd", e[2], ids.setdefault(e[3], len(ids)), e[4], e[5], e[6]))
        elif e[1] == "out_set":
            out.append((e[0], "out_set", e[2], e[3], e[4], ids.setdefault(e[5], len(ids))))
        else:
            out.append(tuple(e))
    return out


_WS = ("blank", "comment")


def fix_tree(tree):
    """generator side: give every Watch/Alarm/Macro a first body line that is an instruction (an opener followed only by
    blank/comment lines captures the next line - known finding C17 - and the indentation-derived structure would be wrong)"""
    def w(nodes):
        for n in nodes:
            if "c" in n:
                w(n["c"])
                if n["k"] in ("watch", "alarm", "macro") and (not n["c"] or n["c"][0]["k"] in _WS):
                    n["c"].insert(0, {"k": "mark", "t": None})
    w(tree["body"])
    return tree


def valid_tree(tree) -> bool:
    """the domain of C01/C14 methods: what pcode_gen.program + fix_tree can produce (the shrinker makes arbitrary sub-cases)"""
    leafs = ("mark", "quick", "slow", "ova", "wait", "blank", "comment", "callmacro")
    macros: list = []

    def ok_thr(n):
        t = n.get("t")
        return t is None or (isinstance(t, (int, float)) and not isinstance(t, bool) and 0 <= t <= 3)

    def w(nodes, depth, top) -> bool:
        if not isinstance(nodes, list) or depth > 6:
            return False
        for n in nodes:
            if not isinstance(n, dict) or not ok_thr(n):
                return False
            k = n.get("k")
            if k in ("slow", "ova"):
                if not (isinstance(n.get("n"), int) and 1 <= n["n"] <= 9):      # iterations (pcode_gen draws 1-4, C01 also up to 9)
                    return False
            elif k == "wait":
                if not (isinstance(n.get("d"), (int, float)) and 0 <= n["d"] <= 1.5):
                    return False
            elif k == "callmacro":
                if n.get("name") not in macros:
                    return False
            elif k in leafs:
                pass
            elif k in ("watch", "alarm"):
                c = n.get("cond")
                if not (isinstance(c, dict) and c.get("tag") in G.UNITS_FOR and c.get("op") in G.OPS and isinstance(c.get("val"), int)
                        and not isinstance(c.get("val"), bool) and 0 <= c["val"] <= 9 and c.get("unit") in G.UNITS_FOR[c["tag"]]):
                    return False
                if not n.get("c") or n["c"][0].get("k") in _WS or not w(n["c"], depth + 1, False):
                    return False
            elif k == "block":
                if n.get("end") not in ("endblock", "endblocks") or not ok_thr({"t": n.get("end_t")}) or not w(n.get("c", []), depth + 1, False):
                    return False
            elif k == "macro":
                if not top or not isinstance(n.get("name"), str) or not n["name"].isalnum() or n["name"] in macros:
                    return False
                if not n.get("c") or n["c"][0].get("k") in _WS or not w(n["c"], depth + 1, False):
                    return False
                macros.append(n["name"])
            else:
                return False
        return True
    return isinstance(tree, dict) and tree.get("base") == "s" and isinstance(tree.get("body"), list) and len(tree["body"]) >= 1 \
        and w(tree["body"], 0, True)


def est_ticks(tree) -> int:
    """rough length of the main thread in ticks (for placing ops)"""
    def w(nodes):
        s = 0
        for n in nodes:
            s += 2
            if n["k"] == "wait":
                s += int(round(float(n.get("d", 0)) * 10))
            if n.get("t"):
                s += int(round(float(n["t"]) * 5))
            if n["k"] in ("block",):
                s += 3 + w(n.get("c", []))
            if n["k"] in ("watch", "alarm", "macro"):
                s += len(n.get("c", []))
        return s
    return 3 + w(tree["body"])
