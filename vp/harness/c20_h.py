"""Helpers of C20: generated UODs (UodBuilder), the analyzer fed with what the engine publishes, method generator.

UOD spec (JSON): {"tags": [{"name", "unit"}], "commands": [{"name", "arg": spec}], "totalizer": bool}
  arg spec: None (default parser: verbatim `value`) | {"kind": "number", "units": [...], "non_negative", "int_only"}
            | {"kind": "categorical", "excl": [...], "add": [...]} | {"kind": "text", "allow_empty"} | {"kind": "noargs"}
Only parsers the engine can publish (regex based / default / none) are generated: a hand written arg_parse_fn is invisible
to the analyzer by construction and outside the property's quantifier ("regex-argument commands").

`GenHarness(spec, lines)` = the shared EngineHarness with the generated unit instead of the fixed one (the shared module
is not edited: its `build_uod` global is swapped for the duration of the constructor call).
"""
from __future__ import annotations

import json
import re

from hypothesis import strategies as st

from vp.harness import engine_h as E

QUANTITIES = {
    "time": ["s", "min", "h", "ms"], "length": ["m", "cm"], "area": ["m2", "dm2", "cm2"], "mass": ["kg", "g"],
    "density": ["kg/L", "g/L"], "temperature": ["degC", "degF", "K"], "amount": ["mol"], "volume": ["L", "mL"],
    "flow": ["L/h", "L/min", "L/d"], "frequency": ["Hz", "kHz"], "pressure": ["Pa", "bar"],
    "massflow": ["kg/h", "g/s", "g/min", "g/h"], "conductivity": ["mS/cm"], "percentage": ["%", "vol%", "wt%", "mol%"],
    "cv": ["CV"], "absorbance": ["AU", "mAU"], "permeability": ["LMH/bar", "L/m2/h/bar"], "flux": ["LMH", "L/m2/h", "L/h/m2"],
}
ALL_UNITS = sorted({u for us in QUANTITIES.values() for u in us})
# quantities the project defines itself on top of pint (custom definitions / own comparability table): tags get them more often
CUSTOM_UNITS = sorted(u for q in ("percentage", "cv", "absorbance", "permeability", "flux", "conductivity", "area") for u in QUANTITIES[q])
# names that exist in some registry of the engine (engine command enum, internal command classes, system tags, run states)
# but are not P-code instructions a method can run
REGISTRY_NAMES = ["Start", "Start", "Start", "Start: 1", "Unpause", "Unhold", "Unpause: 1", "Run Counter: 2", "Block Time", "System State: Running",
                  "Method Status", "Clock", "Running", "Paused", "Cancel", "Force", "Inject", "Base Unit: s", "Reset run counter",
                  "Noop", "Noop: 2", "Run Time: 1 s", "Mark Tag: x", "Connection Status"]
UNIT_Q = {u: q for q, us in QUANTITIES.items() for u in us}
TAG_POOL = ["Flow rate", "TT01", "pH", "UV 280", "Cond", "Pressure 1", "Level", "Feed volume", "Speed", "X", "Area", "P1", "Mass", "FT01"]
CMD_POOL = ["Flow", "Reset", "Valve", "Pump speed", "Area", "Zero UV", "Inlet", "Collect", "Set", "PU01"]
SYSTEM_TAGS = {"Run Counter": None, "Block Time": "s", "Run Time": "s", "Process Time": "s", "Scope Time": "s"}
OPS = ["<", "<=", ">", ">=", "=", "==", "!="]
# hand-written argument patterns (with_command_regex_arguments accepts any regex with named groups; the first one is the
# pattern of the project's own tests / doc strings).  Not all of them are anchored: what "the argument matches" means for
# text around a matching core is decided by the parser, and the analyzer (validator published as RNAP-v1-<regex>) and the
# engine (the same parser's parse) must agree on it.  "cores" are arguments that match from the first to the last character.
HAND_REGEX = [
    {"rx": r"(?P<value>[0-9]+[.][0-9]*?|[.][0-9]+|[0-9]+) ?(?P<unit>m2)", "cores": ["3.5 m2", "2 m2", ".5m2"]},   # unanchored
    {"rx": r"^(?P<value>[0-9]+) ?(?P<unit>mL|L)", "cores": ["10 mL", "3L"]},                                      # start only
    {"rx": r"(?P<valve>VA[0-9]{2})$", "cores": ["VA01", "VA12"]},                                                # end only
    {"rx": r"^(?P<pos>[1-8])$", "cores": ["1", "8"]},                                                            # both
    {"rx": r"(?P<state>on|off)", "cores": ["on", "off"]},                                                        # bare alternation
    {"rx": r"\s*(?P<speed>-?[0-9]+)\s*(?P<speed_unit>rpm)\s*$", "cores": ["100 rpm", "-5rpm"]},                    # leading \s*, end
]
_NAME_RE = re.compile(r"^[A-Za-z][A-Za-z0-9 _%]{0,20}[A-Za-z0-9%]$|^[A-Za-z]$")


# ---------------------------------------------------------------------------------------------
# UOD factory
# ---------------------------------------------------------------------------------------------

def spec_ok(spec) -> bool:
    if not isinstance(spec, dict) or not isinstance(spec.get("tags"), list) or not isinstance(spec.get("commands"), list):
        return False
    if not isinstance(spec.get("totalizer"), bool):
        return False
    tn = [t.get("name") if isinstance(t, dict) else None for t in spec["tags"]]
    cn = [c.get("name") if isinstance(c, dict) else None for c in spec["commands"]]
    if len(set(tn)) != len(tn) or len(set(cn)) != len(cn) or len(tn) > 8 or len(cn) > 6:
        return False
    for t in spec["tags"]:
        if not isinstance(t["name"], str) or not _NAME_RE.match(t["name"]) or t["name"] in SYSTEM_TAGS or t["name"] == "Tot":
            return False
        if t.get("unit") is not None and t.get("unit") not in ALL_UNITS:
            return False
    for c in spec["commands"]:
        if not isinstance(c["name"], str) or not _NAME_RE.match(c["name"]) or c["name"] in RESERVED_NAMES:
            return False
        a = c.get("arg")
        if a is None:
            continue
        if not isinstance(a, dict):
            return False
        k = a.get("kind")
        if k == "number":
            if not (isinstance(a.get("units"), list) and all(u in ALL_UNITS for u in a["units"]) and len(set(a["units"])) == len(a["units"])
                    and isinstance(a.get("non_negative"), bool) and isinstance(a.get("int_only"), bool)):
                return False
        elif k == "categorical":
            okl = lambda l: isinstance(l, list) and all(isinstance(x, str) and re.fullmatch(r"[A-Za-z0-9]+", x) for x in l)  # noqa: E731
            if not (okl(a.get("excl")) and okl(a.get("add")) and (a["excl"] or a["add"])
                    and len(set(a["excl"] + a["add"])) == len(a["excl"] + a["add"])):
                return False
        elif k == "text":
            if not isinstance(a.get("allow_empty"), bool):
                return False
        elif k == "regex":
            if not isinstance(a.get("pat"), int) or isinstance(a.get("pat"), bool) or not (0 <= a["pat"] < len(HAND_REGEX)):
                return False
        elif k != "noargs":
            return False
    return True


RESERVED_NAMES = {"Mark", "Block", "End block", "End blocks", "Batch", "Watch", "Alarm", "Macro", "Call macro", "Notify", "Base",
                  "Increment run counter", "Run counter", "Wait", "Stop", "Pause", "Unpause", "Hold", "Unhold", "Restart", "Start",
                  "Info", "Warning", "Error", "Simulate", "Simulate off", "Noop"}


def build_gen_uod(h, hw, spec):
    from openpectus.lang.exec.regex import RegexCategorical, RegexNumber, RegexText
    from openpectus.lang.exec.tags import Tag
    from openpectus.lang.exec.uod import UodBuilder, UodCommand

    def log(cmd: UodCommand, args):
        h.events.append((h.tick_no, "cmd", cmd.name, cmd.instance_id, "exec", args, cmd.get_iteration_count()))

    def f_number_unit(cmd: UodCommand, number, number_unit):
        log(cmd, "%s %s" % (number, number_unit))
        cmd.set_complete()

    def f_number(cmd: UodCommand, number):
        log(cmd, "%s" % (number,))
        cmd.set_complete()

    def f_option(cmd: UodCommand, option):
        log(cmd, option)
        cmd.set_complete()

    def f_text(cmd: UodCommand, text):
        log(cmd, text)
        cmd.set_complete()

    def f_none(cmd: UodCommand):
        log(cmd, "")
        cmd.set_complete()

    def f_value(cmd: UodCommand, value):
        log(cmd, value)
        cmd.set_complete()

    def f_groups(cmd: UodCommand, **groups):
        log(cmd, " ".join("%s=%s" % kv for kv in sorted(groups.items())))
        cmd.set_complete()

    b = (UodBuilder().with_instrument("GenUnit").with_author("verif", "verif@example.org").with_filename(__file__)
         .with_hardware(hw).with_location("nowhere"))
    for t in spec["tags"]:
        b.with_tag(Tag(t["name"], value=0.0, unit=t["unit"]))
    if spec["totalizer"]:
        b.with_tag(Tag("Tot", value=0.0, unit="L"))
        b.with_accumulated_volume("Tot")
    for c in spec["commands"]:
        a = c["arg"]
        if a is None:
            b.with_command(name=c["name"], exec_fn=f_value)
        elif a["kind"] == "number":
            rx = RegexNumber(units=a["units"] or None, non_negative=a["non_negative"], int_only=a["int_only"])
            b.with_command_regex_arguments(name=c["name"], arg_parse_regex=rx, exec_fn=f_number_unit if a["units"] else f_number)
        elif a["kind"] == "categorical":
            rx = RegexCategorical(exclusive_options=a["excl"] or None, additive_options=a["add"] or None)
            b.with_command_regex_arguments(name=c["name"], arg_parse_regex=rx, exec_fn=f_option)
        elif a["kind"] == "text":
            b.with_command_regex_arguments(name=c["name"], arg_parse_regex=RegexText(allow_empty=a["allow_empty"]), exec_fn=f_text)
        elif a["kind"] == "regex":
            b.with_command_regex_arguments(name=c["name"], arg_parse_regex=HAND_REGEX[a["pat"]]["rx"], exec_fn=f_groups)
        else:
            b.with_command(name=c["name"], exec_fn=f_none, arg_parse_fn=None)
    uod = b.build()
    uod.build_commands()
    return uod


class GenHarness(E.EngineHarness):
    def __init__(self, spec, lines=None):
        orig = E.build_uod
        E.build_uod = lambda h, hw: build_gen_uod(h, hw, spec)
        try:
            super().__init__(lines)
        finally:
            E.build_uod = orig

    def set_tag(self, name, value):
        self.engine.tags[name].set_value(value, E.VT.now)


# ---------------------------------------------------------------------------------------------
# the analyzer, fed with exactly what the engine publishes (through the JSON wire format)
# ---------------------------------------------------------------------------------------------

def published_definition(h):
    from openpectus.engine.engine_message_builder import EngineMessageBuilder
    import openpectus.protocol.models as Mdl
    d = EngineMessageBuilder(h.engine, "", False).create_uod_info().uod_definition
    return Mdl.UodDefinition.model_validate(json.loads(d.model_dump_json()))


def analyze(uod_def, lines):
    """-> list of (line_no, item id, message, is_error) exactly as lsp_analysis.analyze builds them"""
    from openpectus.lang.exec.analyzer import AnalyzerItemType, SemanticCheckAnalyzer
    from openpectus.lang.model.parser import ParserMethod, create_method_parser
    from openpectus.lsp import lsp_analysis
    method = ParserMethod.from_pcode("\n".join(lines))
    program = create_method_parser(method, uod_command_names=[]).parse_method(method)
    an = SemanticCheckAnalyzer(lsp_analysis.build_tags(uod_def), lsp_analysis.build_commands(uod_def))
    an.analyze(program)
    return [(it.range.start.line, it.id, it.message, it.type == AnalyzerItemType.ERROR) for it in an.items]


def drop_lines(lines, nos):
    """remove the given line numbers together with their more deeply indented followers"""
    out = []
    skip_deeper = None
    for i, l in enumerate(lines):
        ind = len(l) - len(l.lstrip(" "))
        if skip_deeper is not None:
            if l.strip() == "" or ind > skip_deeper:
                continue
            skip_deeper = None
        if i in nos:
            skip_deeper = ind
            continue
        out.append(l)
    return out


# ---------------------------------------------------------------------------------------------
# error cause classification (engine side)
# ---------------------------------------------------------------------------------------------

CAUSES = [
    ("undefined-tag", re.compile(r"Unknown tag|[Tt]ag name .* not found|[Tt]ag .* not found|No tag named|not found in collection", re.I)),
    ("undefined-command", re.compile(r"Invalid instruction|Unknown command|Unknown internal engine command|Invalid command type", re.I)),
    ("invalid-command-argument", re.compile(r"Invalid arguments? for command|Failed to initialize arguments|Invalid argument '|"
                                            r"has invalid argument|Argument '.*' for command .* is not valid|Argument must be", re.I)),
    ("incomparable-units", re.compile(r"incompatible units|Cannot compare values with|not comparable|Custom comparison of non-pint units|"
                                      r"Units should be the same|"
                                      # a conversion between the two units of a condition that fails while the condition is evaluated
                                      # (the same message from a Simulate line is a conversion, not a condition: counted as other)
                                      r"Error evaluating condition: [^\n]*?(Invalid unit|Cannot convert between units|is not defined in the unit registry|"
                                      r"DimensionalityError|UndefinedUnitError)", re.I)),
]


def chain_text(ex) -> str:
    parts = []
    seen = set()
    while ex is not None and id(ex) not in seen:
        seen.add(id(ex))
        parts.append("%s: %s" % (type(ex).__name__, ex))
        ex = ex.__cause__ or ex.__context__
    return " <- ".join(parts)


def classify_error(ex) -> str:
    txt = chain_text(ex)
    for name, rx in CAUSES:
        if rx.search(txt):
            return name
    return "other"


# ---------------------------------------------------------------------------------------------
# generators
# ---------------------------------------------------------------------------------------------

@st.composite
def uod_specs(draw):
    names = draw(st.lists(st.sampled_from(TAG_POOL), min_size=1, max_size=5, unique=True))
    tags = []
    for n in names:
        r = draw(st.integers(0, 9))
        unit = None if r < 2 else draw(st.sampled_from(CUSTOM_UNITS)) if r < 5 else draw(st.sampled_from(ALL_UNITS))
        tags.append({"name": n, "unit": unit})
    cnames = draw(st.lists(st.sampled_from(CMD_POOL), min_size=1, max_size=4, unique=True))
    cmds = []
    for n in cnames:
        k = draw(st.sampled_from(["number", "number", "number", "categorical", "categorical", "text", "noargs", "default", "regex", "regex", "regex"]))
        if k == "number":
            units = draw(st.lists(st.sampled_from(ALL_UNITS), min_size=0, max_size=3, unique=True))
            a = {"kind": "number", "units": units, "non_negative": draw(st.booleans()), "int_only": draw(st.booleans())}
        elif k == "categorical":
            excl = draw(st.lists(st.sampled_from(["Open", "Closed", "A", "B"]), max_size=2, unique=True))
            add = draw(st.lists(st.sampled_from(["VA01", "VA02", "VA03", "1", "2"]), max_size=3, unique=True))
            if not excl and not add:
                excl = ["Closed"]
            a = {"kind": "categorical", "excl": excl, "add": add}
        elif k == "text":
            a = {"kind": "text", "allow_empty": draw(st.booleans())}
        elif k == "noargs":
            a = {"kind": "noargs"}
        elif k == "regex":
            a = {"kind": "regex", "pat": draw(st.integers(0, len(HAND_REGEX) - 1))}
        else:
            a = None
        cmds.append({"name": n, "arg": a})
    return {"tags": tags, "commands": cmds, "totalizer": draw(st.booleans())}


LETTERS = "abcdefghijklmnopqrstuvwxyz"


@st.composite
def near_name(draw, name: str):
    """a near miss of a defined name"""
    op = draw(st.sampled_from(["case", "del", "ins", "dbl-space", "suffix", "lower", "upper"]))
    s = list(name)
    pos = draw(st.integers(0, len(s) - 1))
    if op == "case":
        s[pos] = s[pos].swapcase()
    elif op == "del" and len(s) > 1:
        del s[pos]
    elif op == "ins":
        s.insert(pos, draw(st.sampled_from(LETTERS)))
    elif op == "dbl-space" and " " in name:
        return name.replace(" ", "  ", 1)
    elif op == "suffix":
        return name + draw(st.sampled_from(["1", "s", "_", " 2"]))
    elif op == "lower":
        return name.lower()
    else:
        return name.upper()
    return "".join(s).strip() or "Q"


NUMS = ["0", "1", "3", "12.5", ".5", "-2", "7.", "1e3", "05", "+4"]


@st.composite
def cond_value(draw, unit, near: bool):
    num = draw(st.sampled_from(NUMS if near else NUMS[:6]))
    sep = draw(st.sampled_from([" ", " ", ""]))
    if not near:
        if unit is None:
            return num
        return num + sep + draw(st.sampled_from(QUANTITIES[UNIT_Q[unit]]))
    k = draw(st.sampled_from(["missing", "unexpected", "incompatible", "unknown", "case", "text", "spaced", "compatible"]))
    if k == "missing":
        return num
    if k == "unexpected" or (unit is None and k in ("incompatible", "case", "spaced", "compatible")):
        return num + sep + draw(st.sampled_from(ALL_UNITS))
    if k == "incompatible":
        return num + sep + draw(st.sampled_from([u for u in ALL_UNITS if UNIT_Q[u] != UNIT_Q[unit]]))
    if k == "unknown":
        return num + sep + draw(st.sampled_from(["zz", "foo", "L//h", "k g", "°C", "sec", "l/h", "Lh", "m3", "mm", "µS/cm", "pascal", "m**2", "milliAU", "d"]))
    if k == "case":
        u = draw(st.sampled_from(QUANTITIES[UNIT_Q[unit]]))
        return num + sep + (u.lower() if u.lower() != u else u.upper())
    if k == "text":
        return draw(st.sampled_from(["abc", "Open", "on off", "1 2"])) + ((sep + unit) if unit else "")
    if k == "spaced":
        return num + "  " + unit + draw(st.sampled_from(["", " ", " x"]))
    return num + sep + draw(st.sampled_from(QUANTITIES[UNIT_Q[unit]]))


@st.composite
def cmd_arg(draw, a, near: bool):
    if a is None:
        return draw(st.sampled_from(["", "x", "3", "a b"]))
    k = a["kind"]
    if k == "number":
        ints = ["1", "12", "0", "007"]
        num = draw(st.sampled_from(ints if a["int_only"] else ints + ["0.5", ".5", "3."]))
        sep = draw(st.sampled_from([" ", ""]))
        if not near:
            return num + ((sep + draw(st.sampled_from(a["units"]))) if a["units"] else "")
        v = draw(st.sampled_from(["empty", "text", "bad-unit", "no-unit", "extra-unit", "neg", "float", "comma", "double", "case", "trail", "plus", "exp"]))
        u = draw(st.sampled_from(a["units"])) if a["units"] else None
        full = num + ((sep + u) if u else "")
        if v == "empty":
            return ""
        if v == "text":
            return "abc"
        if v == "bad-unit":
            return num + sep + draw(st.sampled_from([x for x in ALL_UNITS if x not in a["units"]] + ["zz"]))
        if v == "no-unit":
            return num
        if v == "extra-unit":
            return full + " " + draw(st.sampled_from(ALL_UNITS))
        if v == "neg":
            return "-" + full
        if v == "float":
            return "1.5" + ((sep + u) if u else "")
        if v == "comma":
            return "1,5" + ((sep + u) if u else "")
        if v == "double":
            return num + "  " + (u or "")
        if v == "case":
            return num + sep + ((u.lower() if u.lower() != u else u.upper()) if u else "X")
        if v == "trail":
            return full + draw(st.sampled_from([" ", "  ", " #", "x"]))
        if v == "plus":
            return "+" + full
        return "1e3" + ((sep + u) if u else "")
    if k == "categorical":
        opts = a["excl"] + a["add"]
        if not near:
            if a["add"] and draw(st.booleans()):
                sel = draw(st.lists(st.sampled_from(a["add"]), min_size=1, max_size=len(a["add"]), unique=True))
                return "+".join(sel)
            return draw(st.sampled_from(opts))
        v = draw(st.sampled_from(["empty", "unknown", "case", "excl+excl", "excl+add", "dup", "spaced", "trailing+", "leading+", "concat", "trail-space"]))
        o = draw(st.sampled_from(opts))
        o2 = draw(st.sampled_from(opts))
        if v == "empty":
            return ""
        if v == "unknown":
            return "Zork"
        if v == "case":
            return o.lower() if o.lower() != o else o.upper()
        if v in ("excl+excl", "excl+add"):
            return o + "+" + o2
        if v == "dup":
            return o + "+" + o
        if v == "spaced":
            return o + " + " + o2
        if v == "trailing+":
            return o + "+"
        if v == "leading+":
            return "+" + o
        if v == "concat":
            return o + o2
        return o + " "
    if k == "text":
        if not near:
            return draw(st.sampled_from(["hello", "a b c", "x"]))
        return draw(st.sampled_from(["", " ", "x"]))
    if k == "regex":
        core = draw(st.sampled_from(HAND_REGEX[a["pat"]]["cores"]))
        if not near:
            return core
        v = draw(st.sampled_from(["prefix", "prefix", "suffix", "suffix", "both", "empty", "text", "case", "inner-space", "twice"]))
        pre = draw(st.sampled_from(["about ", "-", "=", "x", "~ ", "0", "set ", "+"]))
        suf = draw(st.sampled_from([" approx", "x", " !", "0", ".", " now", "2"]))
        if v == "prefix":
            return pre + core
        if v == "suffix":
            return core + suf
        if v == "both":
            return pre + core + suf
        if v == "empty":
            return ""
        if v == "text":
            return draw(st.sampled_from(["abc", "m2", "VA", "9", "on/off"]))
        if v == "case":
            return core.swapcase()
        if v == "inner-space":
            return core.replace(" ", "  ") if " " in core else " ".join(core)
        return core + " " + core
    return "" if not near else draw(st.sampled_from(["3", "x", " "]))


@st.composite
def methods(draw, spec, max_lines: int):
    """-> list of {"text", "kind", "near"}; kind names the construct of the line"""
    tags = [(t["name"], t["unit"]) for t in spec["tags"]] + ([("Tot", "L")] if spec["totalizer"] else [])
    tags_all = tags + list(SYSTEM_TAGS.items())
    cmds = spec["commands"]
    lines: list = []

    def emit(depth, text, kind, near):
        thr = draw(st.sampled_from(["0.1 ", "0 ", "0.25 "])) if draw(st.integers(0, 14)) == 0 and kind not in ("end-block",) else ""
        lines.append({"text": "    " * depth + thr + text, "kind": kind, "near": near})

    def simple(depth):
        r = draw(st.integers(0, 9))
        if r < 4 and cmds:
            command(depth, near=draw(st.integers(0, 5)) == 0)
        elif r < 7:
            emit(depth, "Mark: m%d" % len(lines), "mark", False)
        elif r < 8:
            emit(depth, "Wait: %s" % draw(st.sampled_from(["0.1s", "0.2 s", "0s"])), "internal:Wait", False)
        else:
            emit(depth, draw(st.sampled_from(["Increment run counter", "Info: i", "Notify: n", "Batch: b", "Run counter: 2", "Warning: w"])),
                 "internal:misc", False)

    def command(depth, near):
        c = draw(st.sampled_from(cmds))
        name = c["name"]
        akind = "default" if c["arg"] is None else c["arg"]["kind"]
        if near and draw(st.integers(0, 3)) == 0:
            name = draw(near_name(name))
            arg = draw(cmd_arg(c["arg"], False))
            kind = "uod-command-name"
        else:
            arg = draw(cmd_arg(c["arg"], near))
            kind = "uod-command:%s" % akind
        form = draw(st.sampled_from([0, 0, 0, 1])) if arg == "" else 0
        emit(depth, name + (": " + arg if (arg != "" or form == 1) else ""), kind, near)

    def condition(depth, near):
        head = draw(st.sampled_from(["Watch", "Watch", "Alarm"]))
        tname, tunit = draw(st.sampled_from(tags_all if draw(st.integers(0, 3)) == 0 else tags))
        what = draw(st.sampled_from(["tag", "value", "value", "value"])) if near else None
        nm = draw(near_name(tname)) if what == "tag" else tname
        val = draw(cond_value(tunit, near and what == "value"))
        op = draw(st.sampled_from(OPS))
        sp = draw(st.sampled_from([" ", " ", ""]))
        emit(depth, "%s: %s%s%s%s%s" % (head, nm, sp, op, sp, val), head.lower(), near)
        for _ in range(draw(st.integers(1, 2))):
            simple(depth + 1)

    def simulate(depth, near):
        tname, tunit = draw(st.sampled_from(tags))
        if draw(st.integers(0, 3)) == 0:
            nm = draw(near_name(tname)) if near else tname
            emit(depth, "Simulate off: " + nm, "simulate-off", near)
            return
        what = draw(st.sampled_from(["tag", "value", "value"])) if near else None
        nm = draw(near_name(tname)) if what == "tag" else tname
        val = draw(cond_value(tunit, near and what == "value"))
        emit(depth, "Simulate: %s = %s" % (nm, val), "simulate", near)

    def registry_name(depth):
        emit(depth, draw(st.sampled_from(REGISTRY_NAMES)), "registry-name", True)

    def internal(depth, near):
        if near and draw(st.integers(0, 2)) == 0:
            registry_name(depth)
            return
        if not near:
            t = draw(st.sampled_from(["Wait: 0.2s", "Wait: 0.1 s", "Pause: 0.2s", "Hold: 0.2 s", "Base: s", "Base: min", "Base: h",
                                      "Run counter: 3", "Increment run counter", "Mark: a", "Info: hello", "Notify: n", "Batch: b1"]))
        else:
            t = draw(st.sampled_from(["Wait: 1", "Wait: x", "Wait", "Wait: 1 d", "Wait: -1s", "Wait: 1 S", "Wait: 1s 2s", "Pause: 1", "Pause: x",
                                      "Hold: 1 hour", "Hold: s", "Base: L", "Base: mL", "Base: CV", "Base: kg", "Base: g", "Base: DV", "Base: zz",
                                      "Base: S", "Base", "Base: s s", "Run counter: -1", "Run counter: x", "Run counter: 1.5", "Run counter",
                                      "Run counter: 1 s", "Increment run counter: 2", "Mark", "Info", "Wait: 0.1 min", "Wait: .1s", "Wait: 1.s"]))
        emit(depth, t, "internal:" + t.split(":")[0], near)

    n_near_left = draw(st.sampled_from([0, 1, 1, 2, 2, 3]))
    n = draw(st.integers(3, max_lines))
    while len(lines) < n:
        near = n_near_left > 0 and draw(st.integers(0, 2)) == 0
        if near:
            n_near_left -= 1
        r = draw(st.integers(0, 12))
        if r == 12:
            registry_name(0)
        elif r < 4:
            condition(0, near)
        elif r < 8 and cmds:
            command(0, near)
        elif r < 9:
            simulate(0, near)
        elif r < 11:
            internal(0, near)
        else:
            emit(0, "Block: b%d" % len(lines), "block", False)
            for _ in range(draw(st.integers(1, 2))):
                simple(1)
            emit(1, "End block", "end-block", False)
    # tags whose quantity has several units get, in half of the methods, one extra condition with the limit written in another
    # unit of the same quantity (every ordered pair of a family is reached that way)
    for tname, tunit in tags:
        if tunit is not None and len(QUANTITIES[UNIT_Q[tunit]]) > 1 and draw(st.booleans()):
            other = draw(st.sampled_from([u for u in QUANTITIES[UNIT_Q[tunit]] if u != tunit]))
            emit(0, "%s: %s %s %s %s" % (draw(st.sampled_from(["Watch", "Alarm"])), tname, draw(st.sampled_from(OPS)),
                                         draw(st.sampled_from(NUMS[:6])), other), "cross-unit-condition", False)
            emit(1, "Mark: x%d" % len(lines), "mark", False)
    # every hand-written regex command gets, in half of the methods, one extra line with text around a matching core
    for c in cmds:
        if c["arg"] is not None and c["arg"]["kind"] == "regex" and draw(st.booleans()):
            emit(0, c["name"] + ": " + draw(cmd_arg(c["arg"], True)), "uod-command:regex", True)
    return lines
