"""Tag-report scenarios shared by C16 and C36.

A case = generated method (pcode_gen tree) + input trajectory (In1/In2/Temp/Tot change points per tick) + a list of
phases; a phase = {"user": [control commands issued before its ticks], "ticks": [increment, ...], "rep": kind} where
kind is "report" (EngineMessageBuilder.create_tag_updates_msg), "snapshot" (create_tag_updates_snapshot_msg) or "none".
The run starts with the snapshot the real EngineRunner posts when it enters steady state, then user Start.

run_trace(case) drives the real Engine on the EngineHarness with the *real* EngineMessageBuilder on top and returns a
Trace: the readonly view (value, simulated, tick_time) and the effective value of every tag after every tick (the harness' own observation,
taken directly from the tag objects), and every report exactly as the message carries it.  No oracle lives here.
"""
from __future__ import annotations

import decimal

from hypothesis import strategies as st

from vp.harness import pcode_gen as G

USER_OPS = ["Pause", "Unpause", "Hold", "Unhold", "Stop", "Start", "Restart", "toggle-pause", "toggle-hold"]
USER = st.sampled_from(["toggle-pause"] * 6 + ["toggle-hold"] * 4 + ["Pause", "Unpause", "Hold", "Unhold"] +
                       ["Stop", "Start", "Start", "Start", "Restart", "Restart"])
REP_KINDS = ("report", "snapshot", "none")
TRAJ_TAGS = ("In1", "In2", "Temp", "Tot")

# programs rich in tag changes: blocks (Block, Block Time, Block Volume), simulations, marks, counters, base, outputs
CFG_TAGS = G.GenCfg(kinds={"mark": 4, "block": 9, "simulate": 5, "simoff": 3, "wait": 2, "watch": 2, "alarm": 1, "set": 2,
                           "slow": 1, "flow": 1, "ova": 1, "incr": 1, "runcounter": 1, "base": 1, "pause": 1, "hold": 1,
                           "macro": 1, "callmacro": 1, "quick": 1, "blank": 1, "restart": 1, "endblock": 1},
                    max_depth=3, max_top=10, max_children=5, thresholds=False, base_first="s", wait_max=1.0)
CFG_TAGS_DEEP = G.GenCfg(kinds=dict(CFG_TAGS.kinds), max_depth=4, max_top=14, max_children=6, thresholds=True,
                         threshold_max=1.0, base_first="s", wait_max=1.5)


# A Simulate whose unit differs from the tag's own unit always fails on the current tree (convert_value_to_unit: float x
# Decimal TypeError -> method error, run paused).  That failure is real and stays in the domain, but it ends the useful
# part of a run, so only 1 in SIMULATE_FOREIGN_UNIT_KEEP_1_IN such nodes keeps its foreign unit; the others get the tag's unit.
SIMULATE_FOREIGN_UNIT_KEEP_1_IN = 8
OWN_UNIT = {"In1": "L/h", "In2": None, "Temp": "degC"}


def _own_units(draw, nodes):
    for n in nodes:
        if n["k"] == "simulate" and n.get("unit") != OWN_UNIT.get(n["tag"]):
            if draw(st.integers(0, SIMULATE_FOREIGN_UNIT_KEEP_1_IN - 1)) != 0:
                n["unit"] = OWN_UNIT.get(n["tag"])
        if "c" in n:
            _own_units(draw, n["c"])


def foreign_unit_simulates(tree) -> int:
    def w(nodes):
        return sum((1 if n["k"] == "simulate" and n.get("unit") != OWN_UNIT.get(n["tag"]) else 0) + w(n.get("c", []))
                   for n in nodes)
    return w(tree["body"])


# Long-gap share: the update queue is filled by every tick (Clock, Run Time, Process Time, Block Time, Scope Time ... about
# 5 entries per running tick) and only drained by a report, so what a report has to carry after hundreds of ticks without
# any collection (connection being re-established, engine running before a runner collects) is a case of its own: a tag
# that changed once at the beginning of such a gap has its only queue entry far behind thousands of newer ones.
LONG_GAPS = [220, 260, 320, 400, 520, 650]


@st.composite
def cases(draw, cfg: G.GenCfg, gaps, incs, phases=(8, 30), snapshot_every: int = 12, traj_changes: int = 8,
          user_every: int = 12, long_gap_every: int = 0):
    """gaps / incs: lists to sample the number of ticks of a phase / the tick increments from.
    long_gap_every > 0: 1 case in long_gap_every gets one phase of LONG_GAPS ticks (0.1 s each) among its first four
    phases - while the method is still executing, so Mark / Block / outputs / System State change for the last time in
    the early part of the gap - with an incremental report before and after it."""
    tree = draw(G.program(cfg))
    _own_units(draw, tree["body"])
    ph = []
    n_ticks = 1
    for _ in range(draw(st.integers(phases[0], phases[1]))):
        user = [draw(USER)] if draw(st.integers(0, user_every - 1)) == 0 else []
        n = draw(st.sampled_from(gaps))
        ticks = [draw(st.sampled_from(incs)) for _ in range(n)]
        rep = "snapshot" if draw(st.integers(0, snapshot_every - 1)) == 0 else "report"
        ph.append({"user": user, "ticks": ticks, "rep": rep})
        n_ticks += n
    if long_gap_every > 0 and draw(st.integers(0, long_gap_every - 1)) == 0:
        pos = draw(st.integers(0, min(3, len(ph) - 1)))
        n = draw(st.sampled_from(LONG_GAPS))
        n_ticks += n - len(ph[pos]["ticks"])
        ph[pos]["ticks"] = [0.1] * n
        ph[pos]["rep"] = "report"
        if pos > 0:
            ph[pos - 1]["rep"] = "report"
        if pos + 1 < len(ph):
            ph[pos + 1]["rep"] = "report"
    traj = draw(G.trajectory(n_ticks, tags=TRAJ_TAGS, max_changes=traj_changes))
    return {"tree": tree, "traj": traj, "phases": ph}


def _num(x, lo, hi, integer=False) -> bool:
    if isinstance(x, bool) or not isinstance(x, (int, float)):
        return False
    if integer and not isinstance(x, int):
        return False
    return lo <= x <= hi


def valid_tree(tree) -> bool:
    """the tree is one the generator can produce (the shrinker shortens strings and numbers arbitrarily)"""
    if not isinstance(tree, dict) or tree.get("base") not in (None, "s") or not isinstance(tree.get("body"), list):
        return False
    macros: set = set()
    calls: list = []
    sim_tags = ("In1", "In2", "Temp")

    def cond_ok(c):
        return (isinstance(c, dict) and c.get("tag") in sim_tags and c.get("op") in G.OPS and _num(c.get("val"), 0, 10, True)
                and c.get("unit") in G.UNITS_FOR[c["tag"]])

    def ok(n, depth):
        if not isinstance(n, dict) or depth > 6:
            return False
        k = n.get("k")
        t = n.get("t")
        if t is not None and not _num(t, 0, 1.5):
            return False
        if k in ("slow", "ova", "ovb"):
            good = _num(n.get("n"), 1, 4, True)
        elif k == "set":
            good = n.get("reg") in (1, 2, 3) and _num(n.get("v"), 2, 9, True)
        elif k == "flow":
            good = _num(n.get("v"), 1, 9, True) and n.get("unit") in ("L/h", "L/min")
        elif k == "valve":
            good = n.get("opt") in ("Open", "Closed")
        elif k == "wait":
            good = _num(n.get("d"), 0, 1.5)
        elif k in ("pause", "hold"):
            good = _num(n.get("d"), 0.1, 0.5)
        elif k == "runcounter":
            good = _num(n.get("v"), 0, 5, True)
        elif k == "simulate":
            good = n.get("tag") in sim_tags and _num(n.get("v"), 0, 10, True) and n.get("unit") in G.UNITS_FOR[n["tag"]]
        elif k == "simoff":
            good = n.get("tag") in sim_tags
        elif k == "base":
            good = n.get("u") in ("s", "min", "h", "L")
        elif k == "callmacro":
            good = isinstance(n.get("name"), str)
            calls.append(n.get("name"))
        elif k in ("watch", "alarm"):
            good = cond_ok(n.get("cond")) and isinstance(n.get("c"), list) and len(n["c"]) >= 1
        elif k == "block":
            good = isinstance(n.get("c"), list) and n.get("end") in ("endblock", "endblocks") and \
                (n.get("end_t") is None or _num(n.get("end_t"), 0, 1.5))
        elif k == "macro":
            good = isinstance(n.get("name"), str) and n["name"][:1] == "M" and n["name"][1:].isdigit() and \
                isinstance(n.get("c"), list) and len(n["c"]) >= 1
            macros.add(n.get("name"))
        elif k in ("mark", "quick", "info", "notify", "incr", "blank", "comment", "endblock", "endblocks", "stop", "restart"):
            good = True
        else:
            good = False
        return good and all(ok(c, depth + 1) for c in n.get("c", []))

    return all(ok(n, 1) for n in tree["body"]) and all(c in macros for c in calls)


def valid(case) -> bool:
    try:
        if not isinstance(case, dict) or not valid_tree(case["tree"]):
            return False
        G.render(case["tree"])
        for p in case["phases"]:
            if p["rep"] not in REP_KINDS or not isinstance(p["ticks"], list) or not isinstance(p["user"], list):
                return False
            if not all(isinstance(i, (int, float)) and not isinstance(i, bool) and 0.01 <= i <= 5 for i in p["ticks"]):
                return False
            if not all(u in USER_OPS for u in p["user"]):
                return False
        for pt in case["traj"]:
            if not (isinstance(pt[0], int) and not isinstance(pt[0], bool) and pt[0] >= 0 and isinstance(pt[1], dict)):
                return False
            for k, v in pt[1].items():
                if k not in TRAJ_TAGS or isinstance(v, bool) or not isinstance(v, (int, float)) or not -1e6 < v < 1e6:
                    return False
        return True
    except Exception:
        return False


def _norm(v):
    return float(v) if isinstance(v, decimal.Decimal) else v


class Tick:
    __slots__ = ("no", "time", "inc", "state", "block", "engine_tick_number", "obs", "events", "raised")


class Report:
    """one message: kind, index into trace.ticks of the last tick before it (-1: none yet), the tags as carried by the
    message [(name, value, tick_time, simulated)], and the readonly view of all engine tags at the moment it was taken"""
    __slots__ = ("kind", "after", "tags", "current", "is_none")


class Trace:
    __slots__ = ("t0", "initial", "ticks", "reports", "lines", "rejected", "tag_names")


def _observe(engine) -> dict:
    """name -> (readonly value, simulated, tick_time, effective value).  The effective value is Tag.get_value(), the
    accessor the interpreter itself reads; for tag classes that override get_value() with derived state (Block Time,
    Scope Time) the stored readonly value is used instead."""
    from openpectus.lang.exec.tags import Tag
    out = {}
    for tag in engine._iter_all_tags():
        ro = tag.as_readonly()
        rv = _norm(ro.value)
        gv = _norm(tag.get_value()) if type(tag).get_value is Tag.get_value else rv
        out[str(ro.name)] = (rv, bool(ro.simulated), ro.tick_time, gv)
    return out


def run_trace(case, max_ticks: int = 1500) -> Trace:
    from vp.harness import engine_h
    from vp.harness.engine_h import EngineHarness
    from openpectus.engine.engine_message_builder import EngineMessageBuilder
    # a case must not depend on what the process ran before: run ids / instance ids come from the harness' uuid counter and
    # the engine iterates over sets of such ids, so the counter restarts with every case
    engine_h._uuid_counter[0] = 0
    lines = G.render(case["tree"])
    h = EngineHarness(G.as_method_lines(lines))
    e = h.engine
    mb = EngineMessageBuilder(e, "secret", False)
    tr = Trace()
    tr.t0 = h.t0
    tr.lines = [l.text for l in lines]
    tr.ticks, tr.reports, tr.rejected = [], [], 0
    tr.tag_names = [str(t.name) for t in e._iter_all_tags()]

    def report(kind):
        r = Report()
        r.kind = kind
        r.after = len(tr.ticks) - 1
        r.current = _observe(e)
        if kind == "snapshot":
            msg = mb.create_tag_updates_snapshot_msg()
        else:
            msg = mb.create_tag_updates_msg(e._system_tags["Run Id"].get_value())
        r.is_none = msg is None
        r.tags = [] if msg is None else [(t.name, t.value, t.tick_time, t.simulated) for t in msg.tags]
        tr.reports.append(r)

    def tick(inc):
        upd = G.traj_at(case["traj"], h.tick_no + 1)
        if upd:
            h.set_inputs(**{k: float(v) for k, v in upd.items()})
        ev_from = len(h.events)
        o = h.tick(float(inc))
        t = Tick()
        t.no, t.time, t.inc, t.state, t.block, t.raised = o.no, o.time, o.inc, o.state, o.block, o.raised
        t.engine_tick_number = e._tick_number
        t.obs = _observe(e)
        t.events = h.events[ev_from:]
        tr.ticks.append(t)
        return o

    try:
        tr.initial = _observe(e)
        report("snapshot")             # steady_state_send_messages starts with a snapshot
        h.user("Start")
        stop = tick(0.1).raised is not None
        for p in case["phases"]:
            if stop or len(tr.ticks) >= max_ticks:
                break
            for name in p["user"]:
                if name == "toggle-pause":
                    name = "Unpause" if e._runstate_paused else "Pause"
                elif name == "toggle-hold":
                    name = "Unhold" if e._runstate_holding else "Hold"
                try:
                    h.user(name)
                except ValueError:
                    tr.rejected += 1
            for inc in p["ticks"]:
                if tick(inc).raised is not None:
                    stop = True     # an escaping exception is C13's subject; what was observed so far is still judged
                    break
            if p["rep"] != "none":
                report(p["rep"])
    finally:
        h.close()
    return tr


def shrink_hints(case):
    """whole-phase merges: drop the report of a phase by joining it with its successor"""
    ph = case.get("phases") or []
    for i in range(len(ph) - 1):
        c = dict(case)
        merged = {"user": ph[i]["user"], "ticks": ph[i]["ticks"] + ph[i + 1]["ticks"], "rep": ph[i + 1]["rep"]}
        if ph[i + 1]["user"]:
            continue
        c["phases"] = ph[:i] + [merged] + ph[i + 2:]
        yield c
    if case.get("traj"):
        c = dict(case)
        c["traj"] = []
        yield c
