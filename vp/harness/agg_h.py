"""Aggregator harness: the REAL aggregator stack on a private event loop, sqlite and virtual clock.

What is real   : Aggregator, FromEngine/FromFrontend, AggregatorMessageHandlers, AggregatorDispatcher
                 (its REST registration route, `on_client_connect`, `on_client_disconnect`, the
                 websocket-RPC method `dispatch_message_async`, `rpc_call`), all repositories, the
                 sqlite schema (DBModel.metadata.create_all), FrontendPublisher's PubSubEndpoint /
                 EventNotifier and fastapi_websocket_rpc.RpcChannel for frontend connections, the
                 process_unit router functions register_active_user / unregister_active_user.
What is faked  : sockets (engine channel = FakeEngineChannel, frontend socket = _FakeSocket), the
                 publish_* methods of the frontend publisher (recorded in `h.published`), the web
                 push publisher (recorded in `h.webpush`; pass `webpush_factory=` to use another one).
Time           : `h.now` (float, epoch seconds) is THE clock.  While a harness is open the module
                 attributes `time` / `datetime` of openpectus.aggregator.aggregator, .models,
                 .data.repository and .webpush_publisher are replaced by proxies reading `h.now`;
                 they are restored by `close()`.
Isolation      : one harness at a time per process (openpectus.aggregator.data.database is a module
                 singleton).  `close()` cancels leftover tasks, closes the loop, un-configures the database
                 module, restores the patched module attributes and removes the temp directory (db="file").
                 db="memory" re-uses ONE in-memory sqlite Engine per process (tables wiped on open and close,
                 rowids restart at 1) because a fresh Engine means an empty statement cache (~15 ms per case);
                 db="file" creates a new temp file per harness.  Use `with AggHarness() as h:`.
Cost           : ~1.5 ms to open+close, 0.1-0.3 ms per frontend operation, 0.5-1 ms per engine message that
                 writes to the database (idle machine).  Importing this module imports the aggregator (~6 s).

Python API (small on purpose; C28/C29/C30/C37 and later C31/C32/C33 build on it)
-------------------------------------------------------------------------------
  AggHarness(db="memory"|"file", t0=1_700_000_000.0, secret="", webpush_factory=None)
  h.now                                   virtual epoch seconds (assign or h.advance(dt))
  h.run(coro)                             run a coroutine on the private loop (h.loop), then let spawned tasks settle
                                          (bounded: tasks blocked on something the caller controls are left pending;
                                          h.pending_tasks() counts them).  Concurrency: h.run(asyncio.gather(a(), b())).
  h.aggregator / h.dispatcher / h.handlers / h.publisher / h.webpush_publisher      current incarnation
  h.generation                            number of aggregator restarts so far

  engine side (names are short ids like "E1"; the aggregator's engine_id is h.engine_id(name))
  h.register(name, **RegisterEngineMsg overrides)   -> reply message (REST route, json round trip)
  h.connect(name)                         -> bool    (on_client_connect + delayed connect task)
  h.disconnect(name)                      -> bool    (on_client_disconnect)
  h.send(name, msg)                       -> reply message or None when the engine has no socket
                                             (serialize -> json -> dispatch_message_async -> json -> deserialize)
  h.engine_channel(name)                  -> FakeEngineChannel | None; `.responder` (sync or async
                                             callable: AggregatorMessage -> MessageBase) answers
                                             dispatcher.rpc_call; `.rpc_calls` records them
  h.restart(graceful)                     new Aggregator/dispatcher/handlers/publishers on the same database;
                                             graceful = aggregator.shutdown() + dispatcher.shutdown() first;
                                             db="file" re-opens the file.  All sockets are gone afterwards.
  message builders: h.uod_info_msg(readings, interval, annotate=(), roles=()), h.tags_msg(tags, run),
                    h.run_started_msg(run, t), h.run_stopped_msg(run)        (tags = [[name, value, t(, unit)], ...])

  frontend side
  h.fe_connect(conn)                      -> bool    new RpcChannel(id=conn) wired like WebsocketRPCEndpoint.main_loop
  h.fe_subscribe(conn, topics)            -> bool    JSON-RPC request "subscribe" through channel.on_message
  h.fe_disconnect(conn)                   -> None | exception instance raised by a disconnect callback
  h.fe_register(name, user, user_name="", roles=()) / h.fe_unregister(name, user, roles=())
                                          -> response dto | HTTPException instance (router functions, inside a db scope)
  h.dead_man_topic(user)                  topic string the frontend subscribes for its dead man switch

  observation (fresh reads, plain python data)
  h.engine_data(name) -> EngineData | None      h.active_run(name) -> run id | None
  h.active_users(name) -> sorted user ids | None
  h.plot_logs() / h.recent_runs() / h.recent_engines()  -> list[dict]   (rows ordered by primary key)
  h.plot_rows(run_id=None) -> list[dict(id, plot_log_id, run_id, engine_id, entry_id, name, tick_time, value)]
  h.published  list[str] topics published to frontends;  h.webpush  list[dict(topic, unit, title, body, contributor_id)]

JSON operations: h.apply(op) -> result dict (always contains "skipped": reason | None)
-------------------------------------------------------------------------------
  {"op":"register","engine":"E1"}            {"op":"connect","engine":"E1"}      {"op":"disconnect","engine":"E1"}
  {"op":"uod_info","engine":"E1","readings":["A","B"],"interval":1.0,"annotate":["Mark"],"roles":[]}
  {"op":"tags","engine":"E1","run":"r1"|null,"tags":[["A",1.5,1700000001.0], ...]}
  {"op":"run_started","engine":"E1","run":"r1","t":1700000000.0}   {"op":"run_stopped","engine":"E1","run":"r1"}
  {"op":"msg","engine":"E1","type":"ControlStateMsg","fields":{...}}            any other EM message
  {"op":"restart","graceful":true}           {"op":"advance","dt":1.5}
  {"op":"fe_connect","conn":"c1"}  {"op":"fe_subscribe","conn":"c1","user":"u1"} (or "topics":[...])
  {"op":"fe_disconnect","conn":"c1"}  {"op":"fe_register","engine":"E1","user":"u1"}  {"op":"fe_unregister","engine":"E1","user":"u1"}
Operations a real peer cannot perform in the current state are SKIPPED, never executed: sending or
disconnecting without a socket, connecting without a successful registration since the last
disconnect/restart, frontend traffic on a connection that is not open, re-opening a used connection id
(real ids are fresh uuids).  This keeps every sub-list of a history inside the input domain (shrinker).
"""
from __future__ import annotations

import asyncio
import datetime as _dt
import json
import os
import shutil
import tempfile
import time as _real_time
from typing import Any, Callable

# Eager imports (~6 s, mostly pydantic model building): the framework imports the property module in the parent
# before it forks the shard workers, so the cost is paid once and not once per worker.  The function-level imports
# below are then dictionary lookups.
import fastapi  # noqa: E402,F401
import fastapi_websocket_rpc  # noqa: E402,F401
import fastapi_websocket_rpc.schemas  # noqa: E402,F401
import pydantic_core  # noqa: E402,F401
import sqlalchemy  # noqa: E402,F401
import openpectus.aggregator.aggregator  # noqa: E402,F401
import openpectus.aggregator.aggregator_message_handlers  # noqa: E402,F401
import openpectus.aggregator.data.database  # noqa: E402,F401
import openpectus.aggregator.data.models  # noqa: E402,F401
import openpectus.aggregator.data.repository  # noqa: E402,F401
import openpectus.aggregator.frontend_publisher  # noqa: E402,F401
import openpectus.aggregator.models  # noqa: E402,F401
import openpectus.aggregator.routers.process_unit  # noqa: E402,F401
import openpectus.aggregator.webpush_publisher  # noqa: E402,F401
import openpectus.protocol.aggregator_dispatcher  # noqa: E402,F401
import openpectus.protocol.aggregator_messages  # noqa: E402,F401
import openpectus.protocol.engine_messages  # noqa: E402,F401
import openpectus.protocol.models  # noqa: E402,F401
import openpectus.protocol.serialization  # noqa: E402,F401

_ACTIVE: "AggHarness | None" = None
_MEM_CACHE: tuple | None = None     # (pid, sqlalchemy engine, sessionmaker) of the per-process in-memory database


class HarnessError(Exception):
    pass


# ---- virtual clock proxies -----------------------------------------------------------------------

class _TimeProxy:
    """stands in for the `time` module inside patched openpectus modules"""

    def time(self):
        assert _ACTIVE is not None
        return _ACTIVE.now

    def __getattr__(self, name):
        return getattr(_real_time, name)


class _VDateTime(_dt.datetime):
    """stands in for `datetime.datetime` inside patched openpectus modules"""

    @classmethod
    def now(cls, tz=None):
        assert _ACTIVE is not None
        return _dt.datetime.fromtimestamp(_ACTIVE.now, tz)

    @classmethod
    def utcnow(cls):
        assert _ACTIVE is not None
        return _dt.datetime.fromtimestamp(_ACTIVE.now, _dt.UTC).replace(tzinfo=None)

    @classmethod
    def fromtimestamp(cls, t, tz=None):
        return _dt.datetime.fromtimestamp(t, tz)


_PATCH_TARGETS = [
    ("openpectus.aggregator.aggregator", "time", "time"),
    ("openpectus.aggregator.aggregator", "datetime", "datetime"),
    ("openpectus.aggregator.models", "time", "time"),
    ("openpectus.aggregator.data.repository", "datetime", "datetime"),
    ("openpectus.aggregator.webpush_publisher", "time", "time"),
]


_RPC_TYPES = None


def _rpc_response_types():
    """RpcResponse[...] parametrisations (building one costs ~1 ms, so they are made once)"""
    global _RPC_TYPES
    if _RPC_TYPES is None:
        from fastapi_websocket_rpc.schemas import RpcResponse
        _RPC_TYPES = (RpcResponse[str | None], RpcResponse[str])
    return _RPC_TYPES


# ---- fakes -----------------------------------------------------------------------------------------

class _FakeEngineOther:
    def __init__(self, channel):
        self._channel = channel

    async def get_engine_id_async(self):
        return _rpc_response_types()[0](result=self._channel.engine_id, result_type=None)

    async def dispatch_message_async(self, message_json):
        """what EngineDispatcher.EngineRpcMethods.dispatch_message_async does on the engine side"""
        from openpectus.protocol.serialization import deserialize, serialize
        import openpectus.protocol.aggregator_messages as AM
        ch = self._channel
        if ch.closed:
            raise ConnectionError("channel closed")
        msg = deserialize(_json_round_trip(message_json))
        ch.rpc_calls.append(msg)
        if ch.responder is None:
            reply = AM.SuccessMessage()
        else:
            reply = ch.responder(msg)
            if asyncio.iscoroutine(reply):
                reply = await reply
        return _rpc_response_types()[1](result=json.dumps(_jsonable(serialize(reply))), result_type="str")


class FakeEngineChannel:
    """engine end of the websocket-RPC channel as the AggregatorDispatcher sees it"""

    def __init__(self, engine_id: str | None, serial: int):
        self.engine_id = engine_id
        self.id = "engine-channel-%d" % serial
        self.other = _FakeEngineOther(self)
        self.closed = False
        self.default_response_timeout = None
        self.responder: Callable[[Any], Any] | None = None
        self.rpc_calls: list = []

    async def close(self):
        self.closed = True


class _FakeSocket:
    def __init__(self):
        self.sent: list = []

    async def send(self, data):
        self.sent.append(data)

    async def recv(self):  # pragma: no cover - never used, the harness feeds on_message directly
        raise HarnessError("recv on fake socket")

    async def close(self, code=1000):
        pass


class _FakeRequest:
    def __init__(self, payload):
        self._payload = payload

    async def json(self):
        return self._payload


class RecordingWebPush:
    """stands in for WebPushPublisher: records what would be pushed"""

    def __init__(self, log: list):
        self.log = log
        self.app_server_key = "fake-app-server-key"
        self.wp = None

    async def publish_test_message(self, user_id):
        self.log.append({"topic": "test", "unit": None, "title": None, "body": None, "contributor_id": None, "user": user_id})

    async def publish_message(self, notification, topic, process_unit):
        self.log.append({"topic": str(topic), "unit": process_unit.engine_id, "title": notification.title,
                         "body": notification.body, "contributor_id": notification.data.contributor_id,
                         "timestamp": notification.timestamp})


def _jsonable(obj):
    from pydantic_core import to_jsonable_python
    return to_jsonable_python(obj)


def _json_round_trip(obj):
    return json.loads(json.dumps(_jsonable(obj)))


class _Engine:
    def __init__(self, name: str):
        self.name = name
        self.registered_id: str | None = None   # engine id of the last successful registration still usable
        self.channel: FakeEngineChannel | None = None
        self.seq = 0


# ---- the harness -------------------------------------------------------------------------------

class AggHarness:
    T0 = 1_700_000_000.0

    def __init__(self, db: str = "memory", t0: float = T0, secret: str = "", webpush_factory=None):
        global _ACTIVE
        if _ACTIVE is not None:
            raise HarnessError("another AggHarness is open in this process")
        if db not in ("memory", "file"):
            raise HarnessError("db must be 'memory' or 'file'")
        import importlib
        self._mods = {m: importlib.import_module(m) for m, _, _ in _PATCH_TARGETS}
        from openpectus.aggregator.data import database
        if database._engine is not None:
            raise HarnessError("database module is already configured by someone else")
        self.now = float(t0)
        self.secret = secret
        self.db_mode = db
        self.generation = 0
        self.published: list[str] = []
        self.webpush: list[dict] = []
        self.op_count = 0
        self._webpush_factory = webpush_factory
        self._engines: dict[str, _Engine] = {}
        self._fe: dict[str, Any] = {}            # open frontend connections: conn -> RpcChannel
        self._fe_used: set[str] = set()
        self._chan_serial = 0
        self._tmp: str | None = None
        self._saved: list = []
        self._closed = False
        _ACTIVE = self
        try:
            self._install_clock()
            self.loop = asyncio.new_event_loop()
            self._open_db(create=True)
            self._boot()
        except BaseException:
            self.close()
            raise

    # -- lifecycle -------------------------------------------------------------------------------
    def __enter__(self):
        return self

    def __exit__(self, *exc):
        self.close()
        return False

    def _install_clock(self):
        tp = _TimeProxy()
        for modname, attr, kind in _PATCH_TARGETS:
            mod = self._mods[modname]
            self._saved.append((mod, attr, getattr(mod, attr)))
            setattr(mod, attr, tp if kind == "time" else _VDateTime)

    def _open_db(self, create: bool):
        """db="memory": ONE sqlalchemy Engine per process is kept in _MEM_CACHE (created once with the project's
        configure_db + metadata.create_all) because a new Engine means an empty compiled-statement cache (~15 ms per
        case); every harness starts from wiped tables (sqlite rowids restart at 1).  db="file": a new temp file per
        harness, re-opened by restart()."""
        from openpectus.aggregator.data import database
        import openpectus.aggregator.data.models as DMdl
        global _MEM_CACHE
        if self.db_mode == "memory":
            if _MEM_CACHE is not None and _MEM_CACHE[0] != os.getpid():
                _MEM_CACHE = None       # forked child: do not share the parent's connection object
            if _MEM_CACHE is None:
                database.configure_db("sqlite:///:memory:")
                DMdl.DBModel.metadata.create_all(database._engine, checkfirst=False)  # type: ignore[arg-type]
                _MEM_CACHE = (os.getpid(), database._engine, database._sessionmaker)
            else:
                database._engine, database._sessionmaker = _MEM_CACHE[1], _MEM_CACHE[2]
                if create:
                    self._wipe()
            return
        if self._tmp is None:
            self._tmp = tempfile.mkdtemp(prefix="agg_h_")
        database.configure_db("sqlite:///" + os.path.join(self._tmp, "agg.sqlite3"))
        if create:
            DMdl.DBModel.metadata.create_all(database._engine, checkfirst=False)  # type: ignore[arg-type]

    def _wipe(self):
        from openpectus.aggregator.data import database
        import openpectus.aggregator.data.models as DMdl
        assert database._engine is not None
        raw = database._engine.raw_connection()
        try:
            cur = raw.cursor()
            for table in reversed(DMdl.DBModel.metadata.sorted_tables):
                cur.execute('DELETE FROM "%s"' % table.name)
            raw.commit()
        finally:
            raw.close()

    def _close_db(self):
        from openpectus.aggregator.data import database
        if database._engine is not None:
            if self.db_mode == "memory" and _MEM_CACHE is not None and database._engine is _MEM_CACHE[1]:
                self._wipe()
            else:
                database._engine.dispose()
        database._engine = None
        database._sessionmaker = None

    def _boot(self):
        """create one aggregator incarnation exactly like AggregatorServer.__init__ wires it"""
        from openpectus.aggregator.aggregator import Aggregator
        from openpectus.aggregator.aggregator_message_handlers import AggregatorMessageHandlers
        from openpectus.aggregator.frontend_publisher import FrontendPublisher
        from openpectus.protocol.aggregator_dispatcher import AggregatorDispatcher
        from openpectus.protocol.dispatch_interface import AGGREGATOR_REST_PATH
        h = self

        class RecordingFrontendPublisher(FrontendPublisher):
            async def publish_process_units_changed(self):
                h.published.append("process_units")

            async def publish_run_log_changed(self, unitId):
                h.published.append(unitId + "/run_log")

            async def publish_method_changed(self, unitId):
                h.published.append(unitId + "/method")

            async def publish_method_state_changed(self, unitId):
                h.published.append(unitId + "/method_state")

            async def publish_control_state_changed(self, unitId):
                h.published.append(unitId + "/control_state")

            async def publish_error_log_changed(self, unitId):
                h.published.append(unitId + "/error_log")

            async def publish_active_users_changed(self, unitId):
                h.published.append(unitId + "/active_users")

        self.dispatcher = AggregatorDispatcher()
        self.publisher = RecordingFrontendPublisher()
        self.webpush_publisher = (self._webpush_factory(self) if self._webpush_factory is not None
                                  else RecordingWebPush(self.webpush))
        self.aggregator = Aggregator(self.dispatcher, self.publisher, self.webpush_publisher, self.secret)
        self.handlers = AggregatorMessageHandlers(self.aggregator)
        posts = [r for r in self.dispatcher.router.routes if getattr(r, "path", None) == AGGREGATOR_REST_PATH]
        if len(posts) != 1:
            raise HarnessError("registration route not found")
        self._register_route = posts[0].endpoint

    def close(self):
        global _ACTIVE
        if self._closed:
            return
        self._closed = True
        try:
            loop = getattr(self, "loop", None)
            if loop is not None and not loop.is_closed():
                pending = [t for t in asyncio.all_tasks(loop) if not t.done()]
                for t in pending:
                    t.cancel()
                if pending:
                    loop.run_until_complete(asyncio.gather(*pending, return_exceptions=True))
                loop.close()
        finally:
            try:
                self._close_db()
            finally:
                for mod, attr, val in reversed(self._saved):
                    setattr(mod, attr, val)
                self._saved.clear()
                if self._tmp is not None:
                    shutil.rmtree(self._tmp, ignore_errors=True)
                    self._tmp = None
                _ACTIVE = None

    # -- loop ------------------------------------------------------------------------------------
    def run(self, coro):
        """run `coro` to completion on the private loop and let every task it spawned finish"""
        async def wrapper():
            try:
                return await coro
            finally:
                await self._settle()
        return self.loop.run_until_complete(wrapper())

    async def _settle(self, rounds: int = 200):
        me = asyncio.current_task()
        for _ in range(rounds):
            if not [t for t in asyncio.all_tasks() if t is not me and not t.done()]:
                return
            await asyncio.sleep(0)

    def pending_tasks(self) -> int:
        return len([t for t in asyncio.all_tasks(self.loop) if not t.done()])

    def advance(self, dt: float):
        if dt < 0:
            raise HarnessError("time cannot go backwards")
        self.now += dt

    # -- engine side -----------------------------------------------------------------------------
    def _eng(self, name: str) -> _Engine:
        e = self._engines.get(name)
        if e is None:
            e = self._engines[name] = _Engine(name)
        return e

    def register_msg(self, name: str, **over):
        import openpectus.protocol.engine_messages as EM
        from openpectus import __version__
        fields = dict(computer_name="PC-" + name, uod_name="Uod " + name, uod_author_name="Author",
                      uod_author_email="author@example.org", uod_filename="uod_%s.py" % name,
                      location="Lab", engine_version=__version__, secret=self.secret)
        fields.update(over)
        return EM.RegisterEngineMsg(**fields)

    def engine_id(self, name: str) -> str:
        return self.aggregator.create_engine_id(self.register_msg(name))

    def register(self, name: str, **over):
        """POST of the RegisterEngineMsg through the dispatcher's REST route (inside a db scope like the middleware)"""
        from openpectus.aggregator.data import database
        from openpectus.protocol.serialization import deserialize, serialize
        e = self._eng(name)
        payload = _json_round_trip(serialize(self.register_msg(name, **over)))

        async def go():
            with database.create_scope():
                return await self._register_route(_FakeRequest(payload))
        reply = deserialize(_json_round_trip(self.run(go())))
        if getattr(reply, "success", False) and getattr(reply, "engine_id", None):
            e.registered_id = reply.engine_id
        return reply

    def connect(self, name: str) -> bool:
        e = self._eng(name)
        if e.channel is not None or e.registered_id is None:
            return False
        self._chan_serial += 1
        ch = FakeEngineChannel(e.registered_id, self._chan_serial)
        self.run(self.dispatcher.on_client_connect(ch))
        if self.dispatcher._engine_id_channel_map.get(e.registered_id) is ch and not ch.closed:
            e.channel = ch
            return True
        return False

    def disconnect(self, name: str) -> bool:
        e = self._eng(name)
        if e.channel is None:
            return False
        ch, e.channel = e.channel, None
        e.registered_id = None      # EngineRunner drops its engine id when the connection fails
        ch.closed = True
        self.run(self.dispatcher.on_client_disconnect(ch))
        return True

    def is_connected(self, name: str) -> bool:
        return self._eng(name).channel is not None

    def engine_channel(self, name: str) -> FakeEngineChannel | None:
        return self._eng(name).channel

    def send(self, name: str, msg):
        """one websocket-RPC call `dispatch_message_async(message_json=...)` from engine `name`"""
        from openpectus.protocol.serialization import deserialize, serialize
        e = self._eng(name)
        if e.channel is None:
            return None
        msg.engine_id = e.channel.engine_id
        e.seq += 1
        msg.sequence_number = e.seq
        payload = _json_round_trip(serialize(msg))
        methods = self.dispatcher.endpoint.methods
        result = self.run(methods.dispatch_message_async(message_json=payload))
        return deserialize(json.loads(result))

    def restart(self, graceful: bool):
        if graceful:
            self.aggregator.shutdown()
            self.run(self.dispatcher.shutdown())
        # every socket dies with the process; the old incarnation gets no further callbacks
        for e in self._engines.values():
            e.channel = None
            e.registered_id = None
        self._fe.clear()
        if self.db_mode == "file":
            self._close_db()
            self._open_db(create=False)
        self.generation += 1
        self._boot()

    # message builders
    def uod_info_msg(self, readings, interval: float, annotate=(), roles=()):
        import openpectus.protocol.engine_messages as EM
        import openpectus.protocol.models as PM
        return EM.UodInfoMsg(
            readings=[PM.ReadingInfo(discriminator="reading", tag_name=n, valid_value_units=None, entry_data_type=None,
                                     commands=[], command_options=None) for n in readings],
            commands=[],
            uod_definition=PM.UodDefinition(commands=[], system_commands=[], tags=[]),
            plot_configuration=PM.PlotConfiguration(process_value_names_to_annotate=list(annotate), color_regions=[],
                                                    sub_plots=[], x_axis_process_value_names=[]),
            hardware_str="fake hardware", required_roles=set(roles), data_log_interval_seconds=interval)

    def tags_msg(self, tags, run):
        import openpectus.protocol.engine_messages as EM
        import openpectus.protocol.models as PM
        tv = [PM.TagValue(name=t[0], value=t[1], tick_time=t[2], value_unit=(t[3] if len(t) > 3 else None)) for t in tags]
        return EM.TagsUpdatedMsg(tags=tv, run_id=run)

    def run_started_msg(self, run: str, t: float):
        import openpectus.protocol.engine_messages as EM
        return EM.RunStartedMsg(run_id=run, started_tick=t)

    def run_stopped_msg(self, run: str):
        import openpectus.protocol.engine_messages as EM
        import openpectus.protocol.models as PM
        return EM.RunStoppedMsg(run_id=run, runlog=PM.RunLog(lines=[]), method_state=PM.MethodState.empty(),
                                archive=None, archive_filename=None)

    # -- frontend side ---------------------------------------------------------------------------
    def dead_man_topic(self, user: str) -> str:
        from openpectus.aggregator.frontend_publisher import PubSubTopic
        return "%s/%s" % (PubSubTopic.DEAD_MAN_SWITCH, user)

    def fe_connect(self, conn: str) -> bool:
        from fastapi_websocket_rpc import RpcChannel
        if conn in self._fe_used:
            return False
        ep = self.publisher.pubsub_endpoint.endpoint          # the WebsocketRPCEndpoint behind /api/frontend-pubsub
        ch = RpcChannel(ep.methods, _FakeSocket(), channel_id=conn)
        ch.register_connect_handler(ep._on_connect)
        ch.register_disconnect_handler(ep._on_disconnect)
        self.run(ch.on_connect())
        self._fe[conn] = ch
        self._fe_used.add(conn)
        return True

    def fe_subscribe(self, conn: str, topics: list[str]) -> bool:
        ch = self._fe.get(conn)
        if ch is None:
            return False
        n = len(ch.socket.sent)
        call_id = "call-%d" % (n + 1)
        self.run(ch.on_message({"request": {"method": "subscribe", "arguments": {"topics": list(topics)}, "call_id": call_id}}))
        return len(ch.socket.sent) == n + 1

    def fe_disconnect(self, conn: str):
        """websocket closed: RpcChannel.on_disconnect -> PubSubEndpoint.on_disconnect + FrontendPublisher.on_disconnect.
        Returns the exception a callback raised (the real endpoint logs and swallows it) or None."""
        ch = self._fe.pop(conn, None)
        if ch is None:
            return None
        try:
            self.run(ch.on_disconnect())
        except KeyError as ex:   # FromFrontend.on_ws_disconnect for a connection it has no user for
            return ex
        return None

    def fe_is_open(self, conn: str) -> bool:
        return conn in self._fe

    def _fe_rest(self, fn, **kw):
        from fastapi import HTTPException
        from openpectus.aggregator.data import database

        async def go():
            with database.create_scope():
                return await fn(**kw)
        try:
            return self.run(go())
        except HTTPException as ex:
            return ex

    def fe_register(self, name: str, user: str, user_name: str = "", roles=()):
        from openpectus.aggregator.routers import process_unit
        return self._fe_rest(process_unit.register_active_user, user_id_from_token=None, user_name=user_name or user,
                             user_roles=set(roles), unit_id=self.engine_id(name), user_id=user, agg=self.aggregator)

    def fe_unregister(self, name: str, user: str, roles=()):
        from openpectus.aggregator.routers import process_unit
        return self._fe_rest(process_unit.unregister_active_user, user_id_from_token=None, user_roles=set(roles),
                             unit_id=self.engine_id(name), user_id=user, agg=self.aggregator)

    # -- observation -----------------------------------------------------------------------------
    def engine_data(self, name: str):
        return self.aggregator.get_registered_engine_data(self.engine_id(name))

    def active_run(self, name: str) -> str | None:
        ed = self.engine_data(name)
        if ed is None or not ed.has_run():
            return None
        return ed.run_data.run_id

    def active_users(self, name: str) -> list[str] | None:
        ed = self.engine_data(name)
        if ed is None:
            return None
        return sorted(ed.active_users.keys())

    def _query(self, sql: str, **params) -> list[dict]:
        from openpectus.aggregator.data import database
        from sqlalchemy import text
        assert database._engine is not None
        with database._engine.connect() as c:
            return [dict(r._mapping) for r in c.execute(text(sql), params)]

    def plot_logs(self) -> list[dict]:
        return self._query('SELECT id, engine_id, run_id FROM "PlotLogs" ORDER BY id')

    def recent_runs(self) -> list[dict]:
        return self._query('SELECT id, engine_id, run_id, started_date, completed_date FROM "RecentRuns" ORDER BY id')

    def recent_engines(self) -> list[dict]:
        return self._query('SELECT id, engine_id, run_id, run_started, system_state, last_update FROM "RecentEngines" ORDER BY id')

    def plot_rows(self, run_id: str | None = None) -> list[dict]:
        rows = self._query(
            'SELECT v.id AS id, l.id AS plot_log_id, l.run_id AS run_id, l.engine_id AS engine_id, e.id AS entry_id, '
            'e.name AS name, v.tick_time AS tick_time, v.value_str AS s, v.value_float AS f, v.value_int AS i '
            'FROM "PlotLogEntryValues" v JOIN "PlotLogEntries" e ON v.plot_log_entry_id = e.id '
            'JOIN "PlotLogs" l ON e.plot_log_id = l.id ORDER BY v.id')
        out = []
        for r in rows:
            if run_id is not None and r["run_id"] != run_id:
                continue
            s, f, i = r.pop("s"), r.pop("f"), r.pop("i")
            r["value"] = i if i is not None else (f if f is not None else s)   # same precedence as PlotLogEntryValue.value
            out.append(r)
        return out

    def plot_entries(self) -> list[dict]:
        return self._query('SELECT e.id AS id, e.name AS name, e.plot_log_id AS plot_log_id, l.run_id AS run_id '
                           'FROM "PlotLogEntries" e JOIN "PlotLogs" l ON e.plot_log_id = l.id ORDER BY e.id')

    # -- JSON operations ---------------------------------------------------------------------------
    def apply(self, op: dict) -> dict:
        """interpret one JSON operation; never raises for operations a real peer could not perform (they are skipped)"""
        self.op_count += 1
        kind = op.get("op")
        res: dict = {"op": kind, "skipped": None}

        def reply_info(reply):
            res["reply"] = type(reply).__name__
            return res

        if kind == "advance":
            dt = op.get("dt", 0)
            if not isinstance(dt, (int, float)) or isinstance(dt, bool) or dt < 0 or dt != dt or dt == float("inf"):
                res["skipped"] = "bad-dt"
            else:
                self.advance(float(dt))
            return res
        if kind == "restart":
            self.restart(bool(op.get("graceful", True)))
            return res
        if kind in ("register", "connect", "disconnect", "uod_info", "tags", "run_started", "run_stopped", "msg"):
            name = op.get("engine")
            if not isinstance(name, str) or not name:
                res["skipped"] = "bad-engine"
                return res
            if kind == "register":
                reply = self.register(name)
                res["success"] = bool(getattr(reply, "success", False))
                return reply_info(reply)
            if kind == "connect":
                ok = self.connect(name)
                if not ok:
                    res["skipped"] = "cannot-connect"
                return res
            if kind == "disconnect":
                if not self.disconnect(name):
                    res["skipped"] = "not-connected"
                return res
            if not self.is_connected(name):
                res["skipped"] = "not-connected"
                return res
            msg = self._build_msg(kind, op)
            if msg is None:
                res["skipped"] = "malformed"
                return res
            return reply_info(self.send(name, msg))
        if kind == "fe_connect":
            if not isinstance(op.get("conn"), str) or not self.fe_connect(op["conn"]):
                res["skipped"] = "conn-id-used"
            return res
        if kind == "fe_subscribe":
            topics = op.get("topics")
            if topics is None and isinstance(op.get("user"), str):
                topics = [self.dead_man_topic(op["user"])]
            if not isinstance(topics, list) or not all(isinstance(t, str) for t in topics) or not self.fe_is_open(op.get("conn")):
                res["skipped"] = "conn-not-open"
                return res
            res["ok"] = self.fe_subscribe(op["conn"], topics)
            return res
        if kind == "fe_disconnect":
            if not self.fe_is_open(op.get("conn")):
                res["skipped"] = "conn-not-open"
                return res
            ex = self.fe_disconnect(op["conn"])
            res["error"] = None if ex is None else "%s: %s" % (type(ex).__name__, ex)
            return res
        if kind in ("fe_register", "fe_unregister"):
            name, user = op.get("engine"), op.get("user")
            if not isinstance(name, str) or not name or not isinstance(user, str) or not user:
                res["skipped"] = "malformed"
                return res
            r = self.fe_register(name, user) if kind == "fe_register" else self.fe_unregister(name, user)
            res["reply"] = type(r).__name__
            res["status"] = getattr(r, "status_code", None)
            return res
        res["skipped"] = "unknown-op"
        return res

    def _build_msg(self, kind: str, op: dict):
        import openpectus.protocol.engine_messages as EM
        from pydantic import ValidationError

        def num(x):
            return isinstance(x, (int, float)) and not isinstance(x, bool) and x == x and abs(x) != float("inf")
        try:
            if kind == "uod_info":
                readings = op.get("readings", [])
                if not (isinstance(readings, list) and all(isinstance(r, str) for r in readings) and num(op.get("interval"))):
                    return None
                return self.uod_info_msg(readings, float(op["interval"]), op.get("annotate", []) or [], op.get("roles", []) or [])
            if kind == "tags":
                tags = op.get("tags")
                if not isinstance(tags, list):
                    return None
                for t in tags:
                    if not (isinstance(t, list) and len(t) in (3, 4) and isinstance(t[0], str) and num(t[2])
                            and (t[1] is None or isinstance(t[1], str) or num(t[1]))):
                        return None
                run = op.get("run")
                if run is not None and not isinstance(run, str):
                    return None
                return self.tags_msg(tags, run)
            if kind == "run_started":
                if not isinstance(op.get("run"), str) or not op["run"] or not num(op.get("t")):
                    return None
                return self.run_started_msg(op["run"], float(op["t"]))
            if kind == "run_stopped":
                if not isinstance(op.get("run"), str) or not op["run"]:
                    return None
                return self.run_stopped_msg(op["run"])
            if kind == "msg":
                cls = getattr(EM, str(op.get("type")), None)
                if not (isinstance(cls, type) and issubclass(cls, EM.EngineMessage)) or not isinstance(op.get("fields"), dict):
                    return None
                return cls(**op["fields"])
        except ValidationError:
            return None
        return None
