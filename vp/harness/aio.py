"""Virtual-time asyncio loop, fake engine->aggregator transport and the runner harness (C27).

* VirtualLoop      - a SelectorEventLoop whose clock is virtual: time() returns the virtual now and, whenever
                     nothing is ready, _run_once jumps the clock to the next timer.  FIFO order of the ready
                     queue is untouched, so every schedule is one the real loop could produce.
* Net / Link       - the fake network + aggregator.  A Link models ONE websocket connection: a FIFO byte stream
                     (requests arrive in send order, the aggregator handles them one after the other, responses
                     return in order).  A send attempt whose scripted outcome is "lost" or "acklost" breaks the
                     link (as does a scripted outage); every un-acknowledged attempt on the link then fails, in
                     send order (this is how fastapi_websocket_rpc wakes its waiters: one asyncio.Event).
* FakeNetDispatcher- subclass of the REAL EngineDispatcher; only connect_async / disconnect_async are replaced
                     and `_rpc_client` is a fake whose `.other.dispatch_message_async` talks to the Net.
                     send_async (engine_id, assign_sequence_number, serialisation, exception mapping, response
                     deserialisation) is production code; the override of send_async only notes the identity
                     of the message object and delegates.
* run_scenario     - real Engine (EngineHarness, virtual clock) + real EngineMessageBuilder + real EngineRunner
                     inside the virtual loop, driven by a JSON scenario; returns a plain-data trace.

Everything is a pure function of the scenario: back-off draws (`engine_runner.random`), latencies, outcomes and
event times come from it; `engine_runner.time` is the virtual clock.  Nothing under /repo is modified.
"""
from __future__ import annotations

import asyncio
import heapq
import json
import selectors
from typing import Any

from vp.harness import engine_h
from vp.harness.engine_h import EngineHarness, VT, T0

import openpectus.engine.engine_runner as engine_runner_mod
from openpectus.engine.engine_runner import EngineRunner
from openpectus.engine.engine_message_builder import EngineMessageBuilder
from openpectus.protocol.engine_dispatcher import EngineDispatcher
from openpectus.protocol.exceptions import ProtocolNetworkException
from openpectus.protocol.serialization import serialize
import openpectus.protocol.messages as M
from fastapi_websocket_rpc.rpc_methods import RpcResponse
from fastapi_websocket_rpc.rpc_channel import RpcChannelClosedException
from websockets.exceptions import ConnectionClosedError


class HarnessDeadlock(RuntimeError):
    """the virtual loop has nothing ready and no timer: it would block for ever (harness error, never a verdict)"""


class _NullSelector(selectors.BaseSelector):
    """No I/O happens inside the virtual loop (the only registered file is the loop's self-pipe, which merely wakes a
    blocked select and is never needed here because call_soon_threadsafe also appends to the ready queue): select()
    returns at once instead of costing a system call per loop turn."""

    def __init__(self):
        super().__init__()
        self._keys: dict = {}

    def register(self, fileobj, events, data=None):
        key = selectors.SelectorKey(fileobj, fileobj if isinstance(fileobj, int) else fileobj.fileno(), events, data)
        self._keys[key.fd] = key
        return key

    def unregister(self, fileobj):
        fd = fileobj if isinstance(fileobj, int) else fileobj.fileno()
        return self._keys.pop(fd)

    def select(self, timeout=None):
        return []

    def get_map(self):
        return self._keys


class VirtualLoop(asyncio.SelectorEventLoop):
    def __init__(self, on_advance=None):
        super().__init__(_NullSelector())
        self._vt = 0.0
        self._on_advance = on_advance
        self.turns = 0

    def time(self) -> float:
        return self._vt

    def _run_once(self):
        self.turns += 1
        if not self._ready and not self._stopping:
            # same head clean-up as BaseEventLoop._run_once, so that the head is a live timer
            while self._scheduled and self._scheduled[0]._cancelled:
                self._timer_cancelled_count -= 1
                handle = heapq.heappop(self._scheduled)
                handle._scheduled = False
            if not self._scheduled:
                raise HarnessDeadlock("virtual loop: nothing ready, nothing scheduled")
            when = self._scheduled[0]._when
            if when > self._vt:
                self._vt = when
                if self._on_advance is not None:
                    self._on_advance(when)
        super()._run_once()


# ---------------------------------------------------------------------------------------------------------
# fake network
# ---------------------------------------------------------------------------------------------------------

DEFAULT_ATT = ("ok", 0.01)
DEFAULT_CONN = ("ok", 0.0)
DEFAULT_BACKOFF = 0.5
OUTCOMES = ("ok", "lost", "acklost")
CONN_OUTCOMES = ("ok", "fail", "fail_ws")

_OK_RESPONSE = json.dumps(serialize(M.SuccessMessage()))
_EPS = 1e-9


class Link:
    def __init__(self, lid: int, t: float):
        self.id = lid
        self.opened = t
        self.up = True           # the stream works
        self.closed = False      # closed by the client
        self.inflight: list[dict] = []   # un-acknowledged attempts in send order
        self.last_del = t
        self.last_ack = t
        self.last_dead = t
        self.end_reason: str | None = None


class Net:
    """Scenario keys used here:
    lat      default one-way latency of a send attempt (the acknowledgement takes the same time back)
    faults   [[anchor, j, outcome, lat]...]: the j-th send attempt counted from the anchor gets this outcome/latency;
             anchor "abs" = from the beginning, "<State>#n" = from the n-th entry of the runner into <State>
    conn     [[outcome, lat]...] per connect attempt (then ok/0)
    outages  [[t_down, t_up]...]: at t_down every open link breaks; connects fail while down
    """

    def __init__(self, loop: VirtualLoop, scen: dict, trace: dict):
        self.loop = loop
        self.default_lat = float(scen.get("lat", DEFAULT_ATT[1]))
        self.att_over: dict[int, tuple] = {}
        self.anchored: dict[str, list] = {}
        for anchor, j, outcome, lat in scen.get("faults", []):
            if anchor == "abs":
                self.att_over.setdefault(int(j), (outcome, float(lat)))
            else:
                self.anchored.setdefault(anchor, []).append((int(j), outcome, float(lat)))
        self.state_entries: dict[str, int] = {}
        self.conn_plan = scen.get("conn", [])
        self.outages = [(float(a), float(b)) for a, b in scen.get("outages", [])]
        self.trace = trace
        self.links: list[Link] = []
        self.n_att = 0
        self.n_conn = 0
        self.last_failure_t = -1.0
        for a, _b in self.outages:
            loop.call_at(a, self._outage_begins)

    def note_state(self, new: str) -> str:
        """the runner enters `new`: resolve the faults anchored there; returns the anchor name"""
        n = self.state_entries.get(new, 0) + 1
        self.state_entries[new] = n
        anchor = "%s#%d" % (new, n)
        for j, outcome, lat in self.anchored.get(anchor, []):
            self.att_over.setdefault(self.n_att + j, (outcome, lat))
        return anchor

    # -- network state ------------------------------------------------------------------------------------
    def is_up(self, t: float) -> bool:
        return not any(a <= t < b for a, b in self.outages)

    def _outage_begins(self):
        for l in self.links:
            if l.up and not l.closed:
                self.break_link(l, "outage")

    # -- connections --------------------------------------------------------------------------------------
    def next_conn(self):
        k = self.n_conn
        self.n_conn += 1
        outcome, lat = self.conn_plan[k] if k < len(self.conn_plan) else DEFAULT_CONN
        return k, outcome, float(lat)

    def open_link(self) -> Link:
        l = Link(len(self.links), self.loop.time())
        self.links.append(l)
        return l

    def _fail(self, att: dict, result: str, exc: Exception):
        att["result"] = result
        att["t_end"] = self.loop.time()
        self.last_failure_t = self.loop.time()
        if not att["fut"].done():
            att["fut"].set_exception(exc)

    def break_link(self, l: Link, reason: str):
        """the stream dies: every un-acknowledged attempt fails, in send order"""
        if not l.up:
            return
        l.up = False
        l.end_reason = reason
        self.trace["link_ends"].append((self.loop.time(), l.id, reason))
        pend, l.inflight = l.inflight, []
        for att in pend:
            res = "fail-delivered" if att["t_del"] is not None else "fail-undelivered"
            if att["result"] == "pending":
                self._fail(att, res, RpcChannelClosedException("channel closed before the RPC response was received"))

    def close_link(self, l: Link):
        """client side close (disconnect_async)"""
        if l.closed:
            return
        l.closed = True
        if l.up:
            self.break_link(l, "client-close")
        else:
            pend, l.inflight = l.inflight, []
            for att in pend:
                if att["result"] == "pending":
                    self._fail(att, "fail-deadlink", RpcChannelClosedException("channel closed"))

    # -- sending ------------------------------------------------------------------------------------------
    def send(self, l: Link, m: int, message_json: dict) -> asyncio.Future:
        now = self.loop.time()
        k = self.n_att
        self.n_att += 1
        planned, lat = self.att_over.get(k, ("ok", self.default_lat))
        att = {"k": k, "m": m, "link": l.id, "t_send": now, "seq": message_json.get("sequence_number"),
               "type": message_json.get("_type"), "run_id": message_json.get("run_id"),
               "planned": planned, "lat": lat, "t_del": None, "t_end": None, "result": "pending",
               "fut": self.loop.create_future()}
        self.trace["attempts"].append(att)
        if not l.up or l.closed:
            # the stream is already dead: nothing reaches the aggregator; the caller learns it after `lat`
            att["planned"] = "deadlink"
            att["due"] = max(now + lat, l.last_dead)     # failures are notified in send order, too
            l.last_dead = att["due"]
            l.inflight.append(att)
            self.loop.call_at(att["due"], self._dead_timeout, l)
            return att["fut"]
        att["due"] = max(now + lat, l.last_del)
        l.last_del = att["due"]
        l.inflight.append(att)
        self.loop.call_at(att["due"], self._pump, l)
        return att["fut"]

    def _dead_timeout(self, l: Link):
        now = self.loop.time() + _EPS
        for att in list(l.inflight):
            if att["planned"] != "deadlink" or att["result"] != "pending":
                continue
            if att["due"] > now:
                break
            l.inflight.remove(att)
            self._fail(att, "fail-deadlink", ConnectionClosedError(None, None))

    def _pump(self, l: Link):
        """deliver, then acknowledge, strictly in send order, everything that is due"""
        now = self.loop.time() + _EPS     # the loop fires timers up to its clock resolution early
        for att in list(l.inflight):      # 1. requests reach the aggregator in send order
            if not l.up:
                return
            if att["result"] != "pending" or att["planned"] == "deadlink" or att["t_del"] is not None:
                continue
            if att["due"] > now:
                break                      # FIFO: nothing behind it may overtake
            if att["planned"] == "lost":
                self.break_link(l, "attempt-lost")
                return
            att["t_del"] = self.loop.time()
            self.trace["deliveries"].append((att["t_del"], att["k"], att["m"], att["seq"], att["type"], att["run_id"]))
            if att["planned"] == "acklost":
                self.break_link(l, "ack-lost")
                return
            att["ack_due"] = max(att["t_del"] + att["lat"], l.last_ack)
            l.last_ack = att["ack_due"]
            if att["ack_due"] > now:
                self.loop.call_at(att["ack_due"], self._pump, l)
        for att in list(l.inflight):      # 2. responses come back in the same order
            if att["result"] != "pending" or att["planned"] == "deadlink":
                continue
            if att["t_del"] is None or att["ack_due"] > now:
                break
            att["result"] = "acked"
            att["t_end"] = self.loop.time()
            l.inflight.remove(att)
            if not att["fut"].done():
                att["fut"].set_result(RpcResponse(result=_OK_RESPONSE, result_type=None))


class _Other:
    def __init__(self, client: "FakeRpcClient"):
        self._c = client

    async def dispatch_message_async(self, message_json: dict[str, Any]):
        c = self._c
        m = c.disp._register_message(c.disp._net_current)
        fut = c.net.send(c.link, m, message_json)
        return await fut


class FakeRpcClient:
    def __init__(self, disp: "FakeNetDispatcher", net: Net, link: Link):
        self.disp, self.net, self.link = disp, net, link
        self.other = _Other(self)


class FakeNetDispatcher(EngineDispatcher):
    """the real dispatcher with the network parts replaced"""

    def __init__(self, message_builder, uod_options: dict, net: Net, register_message):
        super().__init__(message_builder, "verif-aggregator:0", False, uod_options)
        self._net = net
        self._register_message = register_message
        self._net_current = None

    async def connect_async(self):
        net = self._net
        k, outcome, lat = net.next_conn()
        t0 = net.loop.time()
        await asyncio.sleep(lat)
        now = net.loop.time()
        ok = outcome == "ok" and net.is_up(now)
        net.trace["connects"].append((t0, now, k, outcome, ok))
        if outcome == "fail" or not net.is_up(now):
            raise ProtocolNetworkException("scripted: registration post failed")
        if self._engine_id is None:
            self._engine_id = "verif-engine-1"
        if outcome == "fail_ws":
            raise ProtocolNetworkException("scripted: error creating websocket connection")
        link = net.open_link()
        self._rpc_client = FakeRpcClient(self, net, link)   # type: ignore

    async def disconnect_async(self):
        if self._rpc_client is not None:
            client = self._rpc_client
            self._net.close_link(client.link)   # type: ignore
            await asyncio.sleep(0)              # the close handshake suspends at least once
            self._rpc_client = None

    async def send_async(self, message):
        self._net_current = message             # identity only; everything else is the production method
        return await super().send_async(message)


# ---------------------------------------------------------------------------------------------------------
# scenario runner
# ---------------------------------------------------------------------------------------------------------

class _RandomStub:
    def __init__(self, draws, trace):
        self.draws = list(draws)
        self.i = 0
        self.trace = trace

    def uniform(self, a, b):
        v = self.draws[self.i] if self.i < len(self.draws) else DEFAULT_BACKOFF
        self.i += 1
        v = min(max(float(v), a), b)
        self.trace["backoffs"].append(v)
        return v


METHODS = {
    "plain": ["Base: s", "Mark: a", "Wait: 1", "Mark: b", "Wait: 2", "Mark: c"],
    "block": ["Base: s", "Block: B1", "    Mark: a", "    Wait: 0.5", "    End block", "Notify: hello", "Wait: 1",
              "Block: B2", "    Mark: b", "    End block", "Mark: c"],
    "watch": ["Base: s", "Watch: In1 > 5 L/h", "    Mark: w", "    Notify: seen", "Mark: a", "Wait: 3", "Mark: b"],
    "stop": ["Base: s", "Mark: a", "Wait: 1.5", "Stop"],
    "error": ["Base: s", "Mark: a", "Wait: 0.5", "Boom", "Mark: b"],
}
ENGINE_EVENTS = ("start", "stop", "restart", "pause", "unpause", "in")
RUNNER_STATES = ("Connected", "Failed", "Disconnected", "Reconnecting", "CatchingUp", "Reconnected")

SETTLE_S = 6.0       # fault-free steady time that ends a scenario
MARGIN_S = 2.5       # messages produced later than this before the end are not judged (max one-way latency 2 s)
TAIL_MAX_S = 90.0
BUFFER_TASK_NAME = "engine.engine_runner.buffer_messages"


def run_scenario(scen: dict, neutralise_orphans: bool = False) -> dict:
    """Runs one scenario to its end; returns the trace (plain data).  Scenario keys (see also Net):
    method   name in METHODS
    engine   [[anchor, t, kind, arg]...] engine events; anchor "abs": at virtual time t, "<State>#n": t seconds after the
             n-th entry of the runner into <State>; an event takes effect in the first engine tick at or after its time
    backoff  [s...] the draws of random.uniform(0.5, MAX_RECONNECT_WAIT_SECONDS)
    dur      end of the window in which absolute events/outages lie; then a fault-free tail follows until the runner
             has been steady (Connected/Reconnected, no failure, network up) for SETTLE_S, at most TAIL_MAX_S
    phase    offset of the engine tick grid (0 <= phase < tick), tick = engine tick period

    neutralise_orphans: harness-side neutralisation of the known defect 'orphaned buffer_messages tasks' - a
    buffer_messages task that is not the runner's tracked `_state_task` is cancelled when it is first seen (it has
    buffered its first batch, in state Failed, by then).  Detection is logged in trace["orphans"] either way.
    """
    trace: dict = {"posts": [], "buffered": [], "attempts": [], "deliveries": [], "states": [], "connects": [],
                   "link_ends": [], "backoffs": [], "exceptions": [], "engine": [], "end": {}, "rejected": 0,
                   "reconnected_with_buffer": [], "orphans": [], "applied": []}
    dur = float(scen.get("dur", 20.0))
    tick = float(scen.get("tick", 0.1))
    phase = float(scen.get("phase", 0.0))
    pending_events: list = []      # heap of (time, order, kind, arg)
    anchored_events: dict[str, list] = {}
    for order, (anchor, t, kind, arg) in enumerate(scen.get("engine", [])):
        if anchor == "abs":
            heapq.heappush(pending_events, (float(t), order, kind, arg))
        else:
            anchored_events.setdefault(anchor, []).append((float(t), order, kind, arg))

    def on_advance(t):
        VT.now = T0 + t

    loop = VirtualLoop(on_advance)
    h = EngineHarness(METHODS[scen.get("method", "plain")])
    old_time, old_random = engine_runner_mod.time, engine_runner_mod.random
    engine_runner_mod.time = engine_h._TIME_PROXY
    engine_runner_mod.random = _RandomStub(scen.get("backoff", []), trace)

    messages: list = []          # keeps every message object alive => id() is a stable identity
    index: dict[int, int] = {}
    live = [True]

    def register(message, via="send") -> int:
        i = index.get(id(message))
        if i is None:
            i = len(messages)
            messages.append(message)
            index[id(message)] = i
            trace["posts"].append({"m": i, "type": type(message).__name__, "run_id": getattr(message, "run_id", None),
                                   "t": loop.time(), "state": None, "via": via, "ret": None})
        return i

    def loop_exc(_loop, ctx):
        if not live[0]:
            return
        ex = ctx.get("exception")
        trace["exceptions"].append((loop.time(), type(ex).__name__ if ex is not None else "?", str(ctx.get("message"))[:200]))

    loop.set_exception_handler(loop_exc)

    async def main():
        net = Net(loop, scen, trace)
        builder = EngineMessageBuilder(h.engine, secret="", ignore_version_error=False)
        disp = FakeNetDispatcher(builder, h.uod.options, net, register)
        runner = EngineRunner(disp, builder, h.engine.emitter, loop)

        # -- observation: instance-level wrappers; no additional suspension points --------------------------
        orig_post = runner._post_async
        orig_buffer = runner._buffer_message
        known_orphans: set = set()

        async def logged_post(message, *args, **kwargs):
            i = register(message, "post")
            p = trace["posts"][i]
            if p["state"] is None:
                p["state"], p["t"], p["via"] = runner.state, loop.time(), "post"
            else:
                p.setdefault("reposts", []).append((loop.time(), runner.state))
            try:
                ret = await orig_post(message, *args, **kwargs)
            except BaseException as ex:   # logged and re-raised unchanged (CancelledError included: a cancelled post is not buffered)
                if live[0]:
                    if not isinstance(ex, asyncio.CancelledError):
                        trace["exceptions"].append((loop.time(), type(ex).__name__, "escaped _post_async: " + str(ex)[:160]))
                    p["raised"] = type(ex).__name__
                raise
            msg = getattr(ret, "message", None)
            if isinstance(ret, M.ErrorMessage) and msg is not None and "invalid state" in msg:
                p["ret"] = "dropped-invalid-state"
            return ret

        def logged_buffer(message):
            cur = asyncio.current_task()
            orphan = cur is not None and cur.get_name() == BUFFER_TASK_NAME and cur is not runner._state_task
            via = "orphan_buffer_task" if orphan else ("buffer_task" if cur is not None and cur.get_name() == BUFFER_TASK_NAME else "post")
            i = register(message, via)
            p = trace["posts"][i]
            if p["state"] is None:
                p["state"], p["via"] = runner.state, via
            trace["buffered"].append((loop.time(), i, runner.state, via))
            if orphan and id(cur) not in known_orphans:
                known_orphans.add(id(cur))
                trace["orphans"].append((loop.time(), runner.state))
                if neutralise_orphans:
                    cur.cancel()      # takes effect at its next suspension (the sleep after this batch)
            return orig_buffer(message)

        runner._post_async = logged_post          # type: ignore
        runner._buffer_message = logged_buffer    # type: ignore

        async def on_state(old, new):
            now = loop.time()
            trace["states"].append((now, old, new))
            anchor = net.note_state(new)
            for (delay, order, kind, arg) in anchored_events.get(anchor, []):
                heapq.heappush(pending_events, (now + delay, order, kind, arg))

        async def on_reconnected():
            if runner._message_buffer:
                trace["reconnected_with_buffer"].append((loop.time(), [index.get(id(x), -1) for x in runner._message_buffer]))

        runner.state_changing_callback = on_state
        runner.reconnected_callback = on_reconnected

        started = asyncio.Event()

        async def first_steady():
            started.set()

        runner.first_steady_state_callback = first_steady

        def apply(kind, arg):
            trace["applied"].append((loop.time(), kind, runner.state))
            try:
                if kind == "start":
                    h.user("Start")
                elif kind == "stop":
                    h.user("Stop")
                elif kind == "restart":
                    h.user("Restart")
                elif kind == "pause":
                    h.user("Pause")
                elif kind == "unpause":
                    h.user("Unpause")
                elif kind == "in":
                    h.set_inputs(In1=float(arg), Temp=float(arg) / 2)
            except ValueError:
                trace["rejected"] += 1      # documented rejection of a control command in the current state

        async def engine_driver():
            """like production: the engine starts on the first steady state, then ticks periodically"""
            await started.wait()
            t_first = (int(loop.time() / tick) + 1) * tick + phase
            k = -1
            ev_seen = 0
            while True:
                k += 1
                await asyncio.sleep(max(0.0, t_first + k * tick - loop.time()))
                now = loop.time()
                while pending_events and pending_events[0][0] <= now:
                    _t, _o, kind, arg = heapq.heappop(pending_events)
                    apply(kind, arg)
                VT.now = T0 + now - tick
                o = h.tick(tick)
                VT.now = T0 + now
                if o.raised is not None:
                    trace["exceptions"].append((now, type(o.raised).__name__, "engine tick raised"))
                for e in h.events[ev_seen:]:
                    if e[1] in ("start", "stop"):
                        trace["engine"].append((now, e[1], e[2] if len(e) > 2 else None, runner.state))
                ev_seen = len(h.events)

        run_task = asyncio.create_task(runner.run())
        drv_task = asyncio.create_task(engine_driver())

        await asyncio.sleep(dur)
        settled = False
        last_outage_end = max([b for _a, b in net.outages] + [0.0])
        while loop.time() < dur + TAIL_MAX_S:
            await asyncio.sleep(0.5)
            if drv_task.done() or run_task.done():
                break
            now = loop.time()
            last_change = trace["states"][-1][0] if trace["states"] else 0.0
            if runner.state in ("Connected", "Reconnected") and now - last_change >= SETTLE_S \
                    and now - net.last_failure_t >= SETTLE_S and now - last_outage_end >= SETTLE_S \
                    and not pending_events:
                settled = True
                break
        if drv_task.done() and not drv_task.cancelled() and drv_task.exception() is not None:
            raise drv_task.exception()     # harness code failed: propagate
        trace["end"] = {"t": loop.time(), "state": runner.state, "settled": settled,
                        "buffer": [index.get(id(x), -1) for x in runner._message_buffer],
                        "inflight": sum(1 for a in trace["attempts"] if a["result"] == "pending"),
                        "engine_started": started.is_set(), "run_task_done": run_task.done(),
                        "timer_done": runner._timer._task.done(), "turns": loop.turns,
                        "state_task": runner._state_task.get_name() if runner._state_task is not None else None}
        # -- tear down ----------------------------------------------------------------------------------------
        live[0] = False
        me = asyncio.current_task()
        others = [t for t in asyncio.all_tasks(loop) if t is not me]
        for _round in range(8):   # some runner coroutines swallow a CancelledError and go on: cancel until all are gone
            others = [t for t in others if not t.done()]
            if not others:
                break
            for t in others:
                t.cancel()
            await asyncio.wait(others, timeout=1.0)
        for t in others:
            if t.done() and not t.cancelled():
                t.exception()      # mark retrieved

    try:
        asyncio.set_event_loop(loop)
        loop.run_until_complete(main())
    finally:
        live[0] = False
        engine_runner_mod.time, engine_runner_mod.random = old_time, old_random
        asyncio.set_event_loop(None)
        loop.close()
        h.close()
    for a in trace["attempts"]:
        a.pop("fut", None)
    return trace
