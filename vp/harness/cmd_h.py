"""Command life-cycle scenarios shared by C10 and C11.

A case is a self-contained JSON value

    {"tree":   program tree of pcode_gen (+ the extra leaf kinds "boom" = UOD command whose exec raises and
               "bad" = UOD command whose arguments are rejected),
     "inputs": {"In1": v, "In2": v, "Temp": v}     constant hardware inputs,
     "ops":    [[i, "user", name] | [i, "inject", [[kind, n], ...]] | [i, "cancel", k, pool], ...]
               applied before the i-th tick after the Start tick (i = 0, 1, ...),
     "n_ticks": number of ticks after the Start tick,
     "overlaps": optional further overlap declarations of the unit, e.g. [["OvA", "Slow"]] (the harness unit declares
               ["OvA", "OvB"]; with_command_overlap may be called several times and a command may be in several lists)}

* user    : engine.execute_control_command_from_user(name) - what ExecuteControlCommandMsg does (ValueError = rejected)
* inject  : engine.inject_code(text) - what InjectCodeMsg does; the snippet is structured ([kind, n] per line) so that the
            generic shrinker cannot leave the snippet language
* cancel  : engine.cancel_instruction(instance_id) - what CancelMsg does (the handler treats every exception as the
            rejection reply, so does the runner; rejections are counted).  The target is the k-th (modulo) element of
            pool "alive" = UOD instances that are initialised and not finalised according to the callback log
            (fallback: run log) or pool "runlog" = all items of the current run log.

`run_case` drives the EngineHarness and returns a Trace: per tick the state, Run Id, uod.command_instances, the UOD
requests still in the command manager's executing list, the simulated tags and the events of the tick; plus, per
on_stop event, the run log of the run-stopped message built with the real EngineMessageBuilder.create_run_stopped_msg
from an on_stop listener (registered after the engine's own listeners, as EngineRunner is).
"""
from __future__ import annotations

from hypothesis import strategies as st

from vp.harness import pcode_gen as G
# imported eagerly (not inside run_case): the runner forks its workers after importing the property module, so the heavy
# openpectus imports (pint registries) are done once in the parent instead of once per worker
from vp.harness.engine_h import EngineHarness
from openpectus.engine.engine_message_builder import EngineMessageBuilder
from openpectus.engine.models import EngineCommandEnum
from openpectus.lang.exec.events import EventListener

USER_OPS = ["Start", "Stop", "Restart", "Pause", "Unpause", "Hold", "Unhold", "Open1", "Open2"]
SNIP = {"slow": "Slow: %d", "ova": "OvA: %d", "ovb": "OvB: %d", "quick": "Quick: j%d", "set1": "Set1: %d",
        "mark": "Mark: j%d", "stop": "Stop", "restart": "Restart", "boom": "Boom: j%d", "bad": "Bad: j%d",
        "wait": "Wait: 0.%ds", "pause": "Pause: 0.%ds", "hold": "Hold: 0.%ds"}
SNIP_MIN = {"slow": 1, "ova": 1, "ovb": 1, "wait": 1, "pause": 1, "hold": 1}
SNIP_MAX = {"wait": 9, "pause": 9, "hold": 9}
POOLS = ["alive", "runlog"]
OVERLAP_GROUPS = [("OvA", "OvB")]          # declared by the harness unit (engine_h.build_uod)
OVERLAP_NAMES = ("Slow", "OvA", "OvB", "Quick", "Set1", "Set2", "Set3")   # names a case may put into extra overlap lists
MAX_TICKS = 400

CFG_CMD = G.GenCfg(kinds={"slow": 5, "ova": 3, "ovb": 3, "quick": 2, "set": 1, "mark": 3, "wait": 3, "pause": 2, "hold": 2,
                          "simulate": 2, "simoff": 1, "block": 2, "watch": 2, "alarm": 1},
                   max_depth=2, max_top=8, max_children=3, thresholds=False, base_first="s", wait_max=1.0)


def cfg_with(kinds_extra: dict | None = None, **kw) -> G.GenCfg:
    kinds = dict(CFG_CMD.kinds)
    kinds.update(kinds_extra or {})
    kinds = {k: w for k, w in kinds.items() if w > 0}
    base = dict(max_depth=CFG_CMD.max_depth, max_top=CFG_CMD.max_top, max_children=CFG_CMD.max_children,
                thresholds=False, base_first="s", wait_max=1.0)
    base.update(kw)
    return G.GenCfg(kinds=kinds, **base)


# ---------------------------------------------------------------------------------------------
# strategies
# ---------------------------------------------------------------------------------------------

def _walk(nodes):
    for n in nodes:
        yield n
        if "c" in n:
            yield from _walk(n["c"])


@st.composite
def programs(draw, cfg: G.GenCfg = CFG_CMD, long_max: int = 8, faulty_every: int = 6):
    """pcode_gen.program with longer command durations and (1 in `faulty_every`) one failing / rejected command"""
    tree = draw(G.program(cfg))
    for n in _walk(tree["body"]):
        if n["k"] in ("slow", "ova", "ovb"):
            n["n"] = draw(st.integers(1, long_max))
    if faulty_every and draw(st.integers(0, faulty_every - 1)) == 0:
        pos = draw(st.integers(0, len(tree["body"])))
        tree["body"].insert(pos, {"k": draw(st.sampled_from(["boom", "bad"])), "t": None})
    return tree


INPUTS = st.fixed_dictionaries({"In1": st.sampled_from([0.0, 2.0, 4.0, 9.0]), "In2": st.sampled_from([0.0, 1.0, 3.0, 6.0]),
                                "Temp": st.sampled_from([0.0, 2.0, 5.0, 20.0])})


@st.composite
def snippet(draw, kinds=("slow", "ova", "ovb", "quick", "set1", "mark"), max_lines: int = 2, long_max: int = 8):
    out = []
    for _ in range(draw(st.integers(1, max_lines))):
        k = draw(st.sampled_from(list(kinds)))
        lo = SNIP_MIN.get(k, 0)
        out.append([k, draw(st.integers(lo, max(lo, SNIP_MAX.get(k, long_max))))])
    return out


def snippet_text(items) -> str:
    lines = []
    for k, n in items:
        f = SNIP[k]
        lines.append(f % n if "%" in f else f)
    return "\n".join(lines)


# ---------------------------------------------------------------------------------------------
# domain guard
# ---------------------------------------------------------------------------------------------

def valid(case) -> bool:
    try:
        if not isinstance(case, dict) or not isinstance(case.get("tree"), dict) or not isinstance(case["tree"].get("body"), list):
            return False
        if not case["tree"]["body"]:
            return False
        render(case["tree"])
        for nd in _walk(case["tree"]["body"]):
            if nd["k"] in ("slow", "ova", "ovb") and not (isinstance(nd.get("n"), int) and not isinstance(nd["n"], bool)
                                                          and 1 <= nd["n"] <= 30):
                return False      # the generator draws 1..N iterations
        n = case.get("n_ticks")
        if not isinstance(n, int) or isinstance(n, bool) or not (1 <= n <= MAX_TICKS):
            return False
        inp = case.get("inputs", {})
        if not isinstance(inp, dict) or any(k not in ("In1", "In2", "Temp") or isinstance(v, bool) or
                                            not isinstance(v, (int, float)) for k, v in inp.items()):
            return False
        for ol in case.get("overlaps", []):
            if not (isinstance(ol, list) and len(ol) >= 2 and len(set(ol)) == len(ol) and all(n in OVERLAP_NAMES for n in ol)):
                return False
        if not isinstance(case.get("overlaps", []), list) or len(case.get("overlaps", [])) > 4:
            return False
        for op in case.get("ops", []):
            if not isinstance(op, list) or len(op) < 3 or not isinstance(op[0], int) or isinstance(op[0], bool) or op[0] < 0:
                return False
            if op[1] == "user":
                if len(op) != 3 or op[2] not in USER_OPS:
                    return False
            elif op[1] == "inject":
                if len(op) != 3 or not isinstance(op[2], list) or not op[2]:
                    return False
                for it in op[2]:
                    if not (isinstance(it, list) and len(it) == 2 and it[0] in SNIP and isinstance(it[1], int)
                            and not isinstance(it[1], bool)):
                        return False
                    if not (SNIP_MIN.get(it[0], 0) <= it[1] <= SNIP_MAX.get(it[0], 99)):
                        return False
            elif op[1] == "cancel":
                if len(op) != 4 or not isinstance(op[2], int) or isinstance(op[2], bool) or op[2] < 0 or op[3] not in POOLS:
                    return False
            else:
                return False
        return True
    except Exception:   # the shrinker hands in arbitrary sub-structures: anything that does not render is outside the domain
        return False


def render(tree):
    """pcode_gen.render + leaf kinds boom (exec raises) and bad (arguments rejected)"""
    def strip(nodes):
        out = []
        for n in nodes:
            if n["k"] in ("boom", "bad"):
                out.append({"k": "quick", "t": n.get("t"), "_as": n["k"]})
            else:
                m = dict(n)
                if "c" in m:
                    m["c"] = strip(m["c"])
                out.append(m)
        return out
    lines = G.render({"base": tree.get("base"), "body": strip(tree["body"])})
    for l in lines:
        if l.node is not None and l.node.get("_as"):
            l.kind = l.node["_as"]
            l.text = l.text.replace("Quick: q", "Boom: x" if l.kind == "boom" else "Bad: x")
    return lines


# ---------------------------------------------------------------------------------------------
# running
# ---------------------------------------------------------------------------------------------

class Tick:
    __slots__ = ("no", "state", "status", "run_id", "inst", "reqs", "internal", "simulated", "ev", "ev_from", "ops", "raised")


class Trace:
    def __init__(self):
        self.ticks: list[Tick] = []
        self.stops: list[dict] = []        # per on_stop event: {"tick", "run_id", "lines" | None, "error" | None}
        self.events: list[tuple] = []
        self.lines: list[str] = []
        self.info = {"user_ok": 0, "user_rejected": 0, "inject_ok": 0, "inject_rejected": 0, "cancel_ok": 0,
                     "cancel_rejected": 0, "cancel_no_target": 0, "cancel_alive_uod": 0, "runlog_unavailable": 0}

    def by_no(self, no: int) -> Tick | None:
        i = no - self.ticks[0].no if self.ticks else -1
        return self.ticks[i] if 0 <= i < len(self.ticks) else None


class Inst:
    """callback history of one UOD command instance id (positions are indices into Trace.events)"""
    __slots__ = ("id", "name", "init", "exec", "fin", "first_pos", "args", "args_seen")

    def __init__(self, iid, name):
        self.id, self.name = iid, name
        self.init: list[tuple] = []     # (pos, tick)
        self.exec: list[tuple] = []
        self.fin: list[tuple] = []
        self.first_pos = -1
        self.args = None
        self.args_seen: list = []       # distinct argument strings of the exec callbacks, in order

    def alive_at(self, pos: int) -> bool:
        """initialised (or executing) before event position `pos` and not finalised before it"""
        began = [p for p, _ in self.init + self.exec if p < pos]
        return bool(began) and not any(p < pos for p, _ in self.fin)


def instances(events, tr: "Trace | None" = None) -> dict:
    """instance id -> Inst, in order of first appearance.  With a Trace the tick of a callback is the tick whose event slice
    contains it: callbacks caused by a request between two ticks (cancel_instruction finalizes at once) belong to the
    following tick, although the harness labelled them with the number of the tick before."""
    out: dict = {}
    bounds = [t.ev_from for t in tr.ticks] if tr is not None else None
    nos = [t.no for t in tr.ticks] if tr is not None else None
    import bisect
    for pos, e in enumerate(events):
        if e[1] != "cmd":
            continue
        if bounds:
            e = (nos[max(0, bisect.bisect_right(bounds, pos) - 1)],) + tuple(e[1:])
        iid = e[3]
        it = out.get(iid)
        if it is None:
            it = out[iid] = Inst(iid, e[2])
            it.first_pos = pos
        ph = e[4]
        (it.init if ph == "init" else it.exec if ph == "exec" else it.fin).append((pos, e[0]))
        if ph == "exec":
            if it.args is None:
                it.args = e[5]
            if e[5] not in it.args_seen:
                it.args_seen.append(e[5])
    return out


def group_of(name: str) -> str:
    for g in OVERLAP_GROUPS:
        if name in g:
            return "+".join(g)
    return name


def overlap_lists(case) -> list:
    return [list(g) for g in OVERLAP_GROUPS] + [list(ol) for ol in case.get("overlaps", [])]


def conflicting(a: str, b: str, lists) -> bool:
    """same command, or both named in one overlap declaration"""
    return a == b or any(a in ol and b in ol for ol in lists)


def run_case(case) -> Trace:
    tr = Trace()
    lines = render(case["tree"])
    tr.lines = [l.text for l in lines]
    h = EngineHarness(G.as_method_lines(lines))
    e = h.engine
    builder = EngineMessageBuilder(e, "", True)
    tr.events = h.events

    class StopSpy(EventListener):
        def on_stop(self):
            run_id = self.run_id
            super().on_stop()
            rec = {"tick": h.tick_no, "run_id": run_id, "lines": None, "error": None, "pos": len(h.events)}
            try:
                msg = builder.create_run_stopped_msg(run_id or "")
                rec["lines"] = [{"id": l.id, "name": l.command_name, "end": l.end, "cancelled": bool(l.cancelled),
                                 "failed": bool(l.failed), "progress": l.progress} for l in msg.runlog.lines]
            except Exception as ex:   # observation, not a verdict: EngineRunner would fail to send the message here
                rec["error"] = "%s: %s" % (type(ex).__name__, str(ex)[:120])
            tr.stops.append(rec)

    e.emitter.add_listener(StopSpy())
    # further overlap declarations of the unit: the state UodBuilder.with_command_overlap(names) produces when it is called
    # once more per list (a command may be a member of several lists)
    for ol in case.get("overlaps", []):
        h.uod.overlapping_command_names_lists.append(list(ol))
    orig_cancel_all = e.cancel_all_commands

    def spy_cancel_all(source_command_name: str):
        # position marker: everything that starts after this point starts after Stop/Restart cancelled the running commands
        # how the Stop/Restart was delivered: "user" = execute_control_command_from_user (ExecuteControlCommandMsg),
        # "code" = scheduled by the interpreter (method line, Watch/Alarm body, injected code)
        running = e.registry.get_running_command(source_command_name)
        reqs = [r for r in e._command_manager.cmd_executing if r.name == source_command_name]
        own = [r for r in reqs if running is not None and r.instance_id == running.instance_id]
        src = (own or reqs)[0].source if reqs else None
        delivery = "user" if src == "user" else ("code" if src == "@interpreter" else "unknown")
        h.events.append((h.tick_no, "cancel_all", source_command_name, delivery))
        return orig_cancel_all(source_command_name)
    e.cancel_all_commands = spy_cancel_all   # type: ignore
    h.set_inputs(**{k: float(v) for k, v in case.get("inputs", {}).items()})

    def snap(o, ev_from, ops) -> Tick:
        t = Tick()
        t.no, t.state, t.status, t.run_id, t.raised = o.no, o.state, o.status, o.run_id, o.raised
        t.inst = sorted((n, c.instance_id) for n, c in h.uod.command_instances.items())
        cm = e._command_manager
        t.reqs = [(r.name, r.instance_id) for r in cm.cmd_executing if not EngineCommandEnum.has_value(r.name)]
        t.internal = [r.name for r in cm.cmd_executing if EngineCommandEnum.has_value(r.name)]
        t.simulated = sorted(tg.name for tg in e._iter_all_tags() if tg.simulated)
        t.ev_from = ev_from
        t.ev = h.events[ev_from:]
        t.ops = ops
        return t

    by_tick: dict = {}
    for op in case.get("ops", []):
        by_tick.setdefault(op[0], []).append(op)
    try:
        ev_from = 0
        o = h.start()
        tr.ticks.append(snap(o, ev_from, [["start"]]))
        ev_from = len(h.events)
        for i in range(int(case["n_ticks"])):
            applied = []
            for op in by_tick.get(i, []):
                applied.append(_apply(h, tr, op))
            o = h.tick()
            tr.ticks.append(snap(o, ev_from, applied))
            ev_from = len(h.events)
            if o.raised is not None:
                break
    finally:
        h.close()
    return tr


def _apply(h, tr: Trace, op):
    e = h.engine
    if op[1] == "user":
        try:
            h.user(op[2])
            tr.info["user_ok"] += 1
            return ["user", op[2], True]
        except ValueError:
            tr.info["user_rejected"] += 1
            return ["user", op[2], False]
    if op[1] == "inject":
        try:
            h.inject(snippet_text(op[2]))
            tr.info["inject_ok"] += 1
            return ["inject", op[2], True]
        except Exception:    # handle_injectCodeMsg answers every exception with the error reply
            tr.info["inject_rejected"] += 1
            return ["inject", op[2], False]
    # cancel
    inst = instances(h.events)
    alive = [i.id for i in inst.values() if i.alive_at(len(h.events))]
    try:
        runlog_ids = [it.id for it in h.runlog().items]
    except AssertionError:
        # the run log cannot be produced in this state (RuntimeInfo raises "Error generating runlog"; judged by C10/C15, not
        # here): a frontend has no run log item to pick from, so a run-log based cancel request cannot be made
        tr.info["runlog_unavailable"] += 1
        runlog_ids = []
    cand = alive if (op[3] == "alive" and alive) else runlog_ids
    if not cand:
        tr.info["cancel_no_target"] += 1
        return ["cancel", None, False]
    target = cand[op[2] % len(cand)]
    if target in alive:
        tr.info["cancel_alive_uod"] += 1
    try:
        e.cancel_instruction(target)
        tr.info["cancel_ok"] += 1
        return ["cancel", target, True]
    except Exception:        # handle_cancelMsg answers every exception with the error reply
        tr.info["cancel_rejected"] += 1
        return ["cancel", target, False]


# ---------------------------------------------------------------------------------------------
# views used by both oracles
# ---------------------------------------------------------------------------------------------

def runs_of(tr: Trace) -> list[dict]:
    """[{start_tick, start_pos, run_id, stop_tick|None, stop_pos|None, kind}] from the listener events"""
    out = []
    cur = None
    for pos, ev in enumerate(tr.events):
        if ev[1] == "start":
            cur = {"start_tick": ev[0], "start_pos": pos, "run_id": ev[2], "stop_tick": None, "stop_pos": None, "kind": None}
            out.append(cur)
        elif ev[1] == "stop" and cur is not None and cur["stop_tick"] is None:
            cur["stop_tick"], cur["stop_pos"] = ev[0], pos
            # which command ended the run: the one whose cancel_all_commands call came last before on_stop (with two
            # requests close together the System State alone does not tell); fallback: the state before
            marks = [e2[2] for e2 in tr.events[cur["start_pos"]:pos] if e2[1] == "cancel_all"]
            prev = tr.by_no(ev[0] - 1)
            if marks and marks[-1] in ("Stop", "Restart"):
                cur["kind"] = marks[-1]
            else:
                cur["kind"] = "Restart" if (prev is not None and prev.state == "Restarting") else "Stop"
    return out


def effects(tr: Trace, from_tick: int, n: int) -> list:
    """per tick after `from_tick`: [state, effect tuples]; instance ids left out (they differ between runs)"""
    out = []
    for k in range(1, n + 1):
        t = tr.by_no(from_tick + k)
        if t is None:
            break
        eff = []
        for ev in t.ev:
            if ev[1] == "mark":
                eff.append(("mark", ev[2]))
            elif ev[1] == "cmd":
                eff.append(("cmd", ev[2], ev[4], ev[5], ev[6]))
            elif ev[1] in ("block_start", "block_end", "notify"):
                eff.append((ev[1], ev[2]))
        out.append([t.state, eff])
    return out


__all__ = ["CFG_CMD", "cfg_with", "programs", "INPUTS", "snippet", "snippet_text", "valid", "render", "run_case", "Trace",
           "instances", "group_of", "overlap_lists", "conflicting", "runs_of", "effects", "USER_OPS", "SNIP", "POOLS"]
