"""FastAPI application harness (C32): the REAL aggregator web application behind a Starlette TestClient.

What is real   : AggregatorServer(...) exactly as `openpectus.aggregator.main` builds it - FastAPI app with every router
                 (process_unit, recent_runs, lsp, auth, webpush, version, the engine dispatcher's REST + websocket routes, the
                 frontend pub/sub), the DBSessionMiddleware, the exception handlers, Aggregator / AggregatorMessageHandlers /
                 AggregatorDispatcher / FrontendPublisher / WebPushPublisher, the sqlite schema (DBModel.metadata.create_all)
                 in a temporary file, the pylsp based language server behind /api/lsp/websocket.
What is faked  : the engine end of the engine websocket (FakeEngineChannel of vp.harness.agg_h; its `responder` answers
                 dispatcher.rpc_call and `rpc_calls` records what reached the engine); the caller's identity, which is
                 injected at the dependency boundary (app.dependency_overrides for auth.user_roles / user_id / user_name -
                 token validation needs Azure keys from the network and is outside the harness); wall clock of the aggregator
                 modules (`h.now`, same targets as agg_h).
Engine traffic : registration is POSTed to the real /engine-rest route; connect/disconnect and every engine message go through
                 dispatcher.on_client_connect / on_client_disconnect / the websocket-RPC method dispatch_message_async with a
                 JSON round trip, on the application's own event loop (the TestClient portal).
Isolation      : one harness per process (openpectus.aggregator.deps._server and .data.database are module singletons; both are
                 reset by __init__/close).  Everything written goes to a tempfile.mkdtemp() directory (database, web push keys,
                 a stub frontend-dist) that close() removes.  `reset_world()` empties the aggregator's maps, the dispatcher's
                 channel map, every table and the LSP analysis cache, so one harness serves many cases.  State the harness
                 does not know about (e.g. a module-level cache added to a router) survives reset_world(); a property that
                 wants its cases independent of each other gives every world its own engine/run ids (h.world_serial).
                 NOT fork safe while open (the portal is a thread): open it inside the worker, close it before forking.
"""
from __future__ import annotations

import asyncio
import datetime as _dt
import json
import os
import shutil
import tempfile
import time as _real_time
from typing import Any

from vp.harness.agg_h import FakeEngineChannel, HarnessError   # also performs the eager aggregator imports

import openpectus.aggregator.aggregator_server  # noqa: E402,F401
import openpectus.lsp.lsp_analysis  # noqa: E402,F401
import starlette.testclient  # noqa: E402,F401

_ACTIVE: "ApiHarness | None" = None


class _TimeProxy:
    def time(self):
        assert _ACTIVE is not None
        return _ACTIVE.now

    def __getattr__(self, name):
        return getattr(_real_time, name)


class _VDateTime(_dt.datetime):
    @classmethod
    def now(cls, tz=None):
        assert _ACTIVE is not None
        return _dt.datetime.fromtimestamp(_ACTIVE.now, tz)

    @classmethod
    def utcnow(cls):
        assert _ACTIVE is not None
        return _dt.datetime.fromtimestamp(_ACTIVE.now, _dt.UTC).replace(tzinfo=None)

    @classmethod
    def fromtimestamp(cls, t, tz=None):
        return _dt.datetime.fromtimestamp(t, tz)


_PATCH_TARGETS = [
    ("openpectus.aggregator.aggregator", "time", "time"),
    ("openpectus.aggregator.aggregator", "datetime", "datetime"),
    ("openpectus.aggregator.models", "time", "time"),
    ("openpectus.aggregator.data.repository", "datetime", "datetime"),
    ("openpectus.aggregator.webpush_publisher", "time", "time"),
]


def _jsonable(obj):
    from pydantic_core import to_jsonable_python
    return to_jsonable_python(obj)


def _round_trip(obj):
    return json.loads(json.dumps(_jsonable(obj)))


class Reply:
    """one HTTP answer: status, raw body bytes, parsed json (or None)"""

    def __init__(self, status: int, body: bytes):
        self.status = status
        self.body = body
        try:
            self.json = json.loads(body) if body else None
        except ValueError:
            self.json = None

    def __repr__(self):
        return "Reply(%d, %r)" % (self.status, self.body[:200])


class ApiHarness:
    T0 = 1_700_000_000.0

    def __init__(self):
        global _ACTIVE
        if _ACTIVE is not None:
            raise HarnessError("another ApiHarness is open in this process")
        import importlib
        import openpectus.aggregator.deps as deps
        from openpectus.aggregator.data import database
        if database._engine is not None:
            raise HarnessError("database module is already configured by someone else")
        self.now = float(self.T0)
        self._closed = False
        self._saved: list = []
        self._stack = None
        self._tmp = tempfile.mkdtemp(prefix="api_h_")
        self._seq: dict[str, int] = {}
        self._chan_serial = 0
        self.world_serial = 0        # number of reset_world() calls: lets a property give every world its own ids
        self.channels: dict[str, FakeEngineChannel] = {}
        self.identity: dict[str, Any] = {"roles": set(), "id": None, "name": "Anon"}
        _ACTIVE = self
        try:
            for modname, attr, kind in _PATCH_TARGETS:
                mod = importlib.import_module(modname)
                self._saved.append((mod, attr, getattr(mod, attr)))
                setattr(mod, attr, _TimeProxy() if kind == "time" else _VDateTime)
            os.makedirs(os.path.join(self._tmp, "keys"))
            os.makedirs(os.path.join(self._tmp, "dist"))
            with open(os.path.join(self._tmp, "dist", "index.html"), "w") as f:
                f.write("<html>stub frontend</html>")
            deps._server = None
            from openpectus.aggregator.aggregator_server import AggregatorServer
            import openpectus.aggregator.data.models as DMdl
            from openpectus.aggregator.routers import auth
            self.server = AggregatorServer(db_path=os.path.join(self._tmp, "agg.sqlite3"),
                                           webpush_keys_path=os.path.join(self._tmp, "keys"),
                                           frontend_dist_dir=os.path.join(self._tmp, "dist"))
            if deps._server is not self.server.aggregator:
                raise HarnessError("deps._server is not the aggregator of this server")
            # the temporary database needs no durability: without fsync a commit costs 0.3 ms instead of 25 ms
            from sqlalchemy import event

            def _no_fsync(dbapi_connection, _record):
                cur = dbapi_connection.cursor()
                cur.execute("PRAGMA synchronous=OFF")
                cur.execute("PRAGMA journal_mode=MEMORY")
                cur.close()
            event.listen(database._engine, "connect", _no_fsync)
            DMdl.DBModel.metadata.create_all(database._engine)  # type: ignore[arg-type]
            self.app = self.server.fastapi
            self.aggregator = self.server.aggregator
            self.dispatcher = self.server.dispatcher
            h = self
            self.app.dependency_overrides[auth.user_roles] = lambda: set(h.identity["roles"])
            self.app.dependency_overrides[auth.user_id] = lambda: h.identity["id"]
            self.app.dependency_overrides[auth.user_name] = lambda: h.identity["name"]
            from starlette.testclient import TestClient
            self.client = TestClient(self.app, raise_server_exceptions=False)
            self.client.__enter__()          # starts the portal (the application's event loop thread) and the lifespan
            self._entered = True
        except BaseException:
            self.close()
            raise

    # -- lifecycle ---------------------------------------------------------------------------------------
    def __enter__(self):
        return self

    def __exit__(self, *exc):
        self.close()
        return False

    def close(self):
        global _ACTIVE
        if self._closed:
            return
        self._closed = True
        try:
            self._stop_timers()
            if getattr(self, "_entered", False):
                self.client.__exit__(None, None, None)      # lifespan shutdown + portal stop
        finally:
            import openpectus.aggregator.deps as deps
            from openpectus.aggregator.data import database
            from openpectus.lsp.lsp_analysis import create_analysis_input
            try:
                if database._engine is not None:
                    database._engine.dispose()
            finally:
                database._engine = None
                database._sessionmaker = None
                deps._server = None
                create_analysis_input.cache_clear()
                for mod, attr, val in reversed(self._saved):
                    setattr(mod, attr, val)
                self._saved.clear()
                shutil.rmtree(self._tmp, ignore_errors=True)
                _ACTIVE = None

    # -- the application's loop --------------------------------------------------------------------------
    def call(self, fn, *args):
        """run the async callable fn(*args) on the application's event loop and let spawned tasks settle"""
        portal = self.client.portal
        assert portal is not None
        try:
            return portal.call(fn, *args)
        finally:
            portal.call(self._settle)

    @staticmethod
    async def _settle(rounds: int = 50):
        for _ in range(rounds):
            await asyncio.sleep(0)

    def reset_world(self):
        from openpectus.aggregator.data import database
        import openpectus.aggregator.data.models as DMdl
        from openpectus.lsp.lsp_analysis import create_analysis_input
        self.client.portal.call(self._settle)      # type: ignore[union-attr]
        self.aggregator._engine_data_map.clear()
        self.dispatcher._engine_id_channel_map.clear()
        self.aggregator.from_frontend.dead_man_switch_user_ids.clear()
        create_analysis_input.cache_clear()
        assert database._engine is not None
        raw = database._engine.raw_connection()
        try:
            cur = raw.cursor()
            for table in reversed(DMdl.DBModel.metadata.sorted_tables):
                cur.execute('DELETE FROM "%s"' % table.name)
            cur.execute("DELETE FROM sqlite_sequence") if self._has_sqlite_sequence(cur) else None
            raw.commit()
        finally:
            raw.close()
        self.channels.clear()
        self._seq.clear()
        self.world_serial += 1
        self.now = float(self.T0)
        self.identity = {"roles": set(), "id": None, "name": "Anon"}

    @staticmethod
    def _has_sqlite_sequence(cur) -> bool:
        cur.execute("SELECT name FROM sqlite_master WHERE type='table' AND name='sqlite_sequence'")
        return cur.fetchone() is not None

    # -- identity ----------------------------------------------------------------------------------------
    def set_identity(self, roles, user_id: str | None, user_name: str):
        self.identity = {"roles": set(roles), "id": user_id, "name": user_name}

    # -- HTTP --------------------------------------------------------------------------------------------
    def request(self, method: str, path: str, json_body=None, params=None) -> Reply:
        r = self.client.request(method, path, json=json_body, params=params)
        self.client.portal.call(self._settle, 10)       # type: ignore[union-attr]
        return Reply(r.status_code, r.content)

    def routes(self) -> list[tuple[str, str, str]]:
        """every route of the application: (kind, method, path) with kind http|websocket|mount"""
        from starlette.routing import Mount, Route, WebSocketRoute
        out = []
        for r in self.app.routes:
            if isinstance(r, WebSocketRoute):
                out.append(("websocket", "WS", r.path))
            elif isinstance(r, Route):
                for m in sorted((r.methods or set()) - {"HEAD"}):
                    out.append(("http", m, r.path))
            elif isinstance(r, Mount):
                out.append(("mount", "*", r.path))
            else:
                raise HarnessError("unknown route object %r" % (r,))
        return out

    # -- engine side -------------------------------------------------------------------------------------
    def register(self, computer_name: str, uod_name: str, location: str = "Lab", author: str = "Author",
                 email: str = "author@example.org", filename: str = "uod.py") -> str:
        import openpectus.protocol.engine_messages as EM
        from openpectus import __version__
        from openpectus.protocol.dispatch_interface import AGGREGATOR_REST_PATH
        from openpectus.protocol.serialization import deserialize, serialize
        msg = EM.RegisterEngineMsg(computer_name=computer_name, uod_name=uod_name, uod_author_name=author, uod_author_email=email,
                                   uod_filename=filename, location=location, engine_version=__version__, secret="")
        r = self.request("POST", AGGREGATOR_REST_PATH, json_body=_round_trip(serialize(msg)))
        if r.status != 200:
            raise HarnessError("registration answered %r" % (r,))
        reply = deserialize(r.json)
        if not getattr(reply, "success", False) or not getattr(reply, "engine_id", None):
            raise HarnessError("registration refused: %r" % (reply,))
        return reply.engine_id

    def connect(self, engine_id: str) -> FakeEngineChannel:
        self._chan_serial += 1
        ch = FakeEngineChannel(engine_id, self._chan_serial)
        self.call(self.dispatcher.on_client_connect, ch)
        if self.dispatcher._engine_id_channel_map.get(engine_id) is not ch or ch.closed:
            raise HarnessError("engine %s could not connect" % engine_id)
        self.channels[engine_id] = ch
        return ch

    def disconnect(self, engine_id: str):
        ch = self.channels.pop(engine_id)
        ch.closed = True
        self.call(self.dispatcher.on_client_disconnect, ch)

    def send(self, engine_id: str, msg, expect: str | None = "SuccessMessage"):
        """one websocket-RPC call dispatch_message_async(message_json=...) from the engine"""
        from openpectus.protocol.serialization import deserialize, serialize
        if engine_id not in self.channels:
            raise HarnessError("engine %s has no socket" % engine_id)
        msg.engine_id = engine_id
        self._seq[engine_id] = self._seq.get(engine_id, 0) + 1
        msg.sequence_number = self._seq[engine_id]
        payload = _round_trip(serialize(msg))
        methods = self.dispatcher.endpoint.methods

        async def go():
            return await methods.dispatch_message_async(message_json=payload)
        reply = deserialize(json.loads(self.call(go)))
        if expect is not None and type(reply).__name__ != expect:
            raise HarnessError("%s answered with %r" % (type(msg).__name__, reply))
        return reply

    def engine_data(self, engine_id: str):
        return self.aggregator.get_registered_engine_data(engine_id)

    def rpc_calls(self, engine_id: str) -> list:
        ch = self.channels.get(engine_id)
        return [] if ch is None else list(ch.rpc_calls)

    # -- LSP websocket -----------------------------------------------------------------------------------
    def lsp_session(self, engine_id: str, text: str, probes: list[dict], uri: str = "file:///method.pcode") -> dict:
        """LSP session on /api/lsp/websocket: initialize (initializationOptions.engineId), initialized, didOpen(text), then one
        request per probe {"kind": "hover"|"completion", "line": n, "character": m}.
        -> {"accepted": bool, "close_code": int | None, "initialize": result | error, "probes": [result | {"error": ...}]}"""
        from starlette.websockets import WebSocketDisconnect
        out: dict = {"accepted": False, "close_code": None, "initialize": None, "probes": []}
        next_id = [0]

        def rpc(ws, method, params):
            next_id[0] += 1
            ws.send_json({"jsonrpc": "2.0", "id": next_id[0], "method": method, "params": params})
            for _ in range(200):
                m = ws.receive_json()
                if m.get("id") == next_id[0] and "method" not in m:
                    return m["result"] if "result" in m else {"error": m.get("error")}
            raise HarnessError("no answer to %s after 200 messages" % method)

        try:
            with self.client.websocket_connect("/api/lsp/websocket") as ws:
                out["accepted"] = True
                out["initialize"] = rpc(ws, "initialize", {"processId": None, "rootUri": None, "capabilities": {},
                                                           "initializationOptions": {"engineId": engine_id}})
                ws.send_json({"jsonrpc": "2.0", "method": "initialized", "params": {}})
                ws.send_json({"jsonrpc": "2.0", "method": "textDocument/didOpen",
                              "params": {"textDocument": {"uri": uri, "languageId": "pcode", "version": 1, "text": text}}})
                for p in probes:
                    method = {"hover": "textDocument/hover", "completion": "textDocument/completion"}[p["kind"]]
                    out["probes"].append(rpc(ws, method, {"textDocument": {"uri": uri},
                                                         "position": {"line": p["line"], "character": p["character"]}}))
                ws.send_json({"jsonrpc": "2.0", "method": "textDocument/didClose", "params": {"textDocument": {"uri": uri}}})
        except WebSocketDisconnect as ex:
            out["close_code"] = ex.code
        self._stop_timers()
        self.client.portal.call(self._settle, 10)       # type: ignore[union-attr]
        return out

    @staticmethod
    def _stop_timers():
        """pylsp debounces linting on threading.Timer threads (0.5 s).  Nothing here observes lint results, and a timer that fires
        while the framework forks its workers can leave a lock held in the child (deadlock), so pending timers are cancelled
        and joined."""
        import threading
        for t in threading.enumerate():
            if isinstance(t, threading.Timer):
                t.cancel()
                t.join(5)
