"""Helper of C03 (thresholds and Wait durations): program strategies with exact decimal texts, the case runner that
records the first tick each line is reported started, and the shadow clocks.

Built on the shared modules (nothing there is edited): trees use the node format of pcode_gen and are rendered by
pcode_gen.render; thresholds and Wait arguments are carried as *strings* (keys "ts", "end_ts", "w") and written into
the rendered lines afterwards, because pcode_gen formats numbers with three decimals (0.0001 h would become 0).

Case (self-contained JSON):
  {"tree": {"base": "s"|"min"|"h"|"L"|"mL"|None, "body": [node...]},
   "sched": [[tick, "Pause"|"Unpause"|"Hold"|"Unhold"], ...]   user commands issued before the tick with that number
   "tot":   [[first_tick, n_ticks, litres_per_tick], ...]        the totaliser input rises by that amount at each of these ticks
   "t0":    "epoch" | "zero"                                     size of the tick times
   "rel":   [[wait_ordinal, offset, "Pause"|"Hold", length], ...]  directed requests: the command is issued before tick
            (entry tick of that Wait line in a run without these requests) + offset, its release `length` ticks later
   "in2":   int                                                  input In2 = min(tick // in2, 3): when Watch conditions become true
   "max_ticks": int}
"""
from __future__ import annotations

import copy
from fractions import Fraction

from hypothesis import strategies as st

from vp.harness import pcode_gen as G

INTERVAL = Fraction(1, 10)
TIME_FACTOR = {"s": Fraction(1), "min": Fraction(60), "h": Fraction(3600)}
VOL_FACTOR = {"L": Fraction(1), "mL": Fraction(1, 1000)}
BASE_UNITS = list(TIME_FACTOR) + list(VOL_FACTOR)
DEFAULT_BASE = "min"
USER_CMDS = ("Pause", "Unpause", "Hold", "Unhold")

# thresholds per base unit: exact decimal strings; seconds (or litres) = value * factor.  Multiples of the tick, values
# between two ticks, zero, sub-tick values.
THRESHOLDS = {
    "s": ["0", "0.05", "0.1", "0.2", "0.25", "0.3", "0.45", "0.5", "0.7", "0.8", "0.9", "1", "1.1", "1.25", "1.5", "2", "2.3", "3"],
    "min": ["0", "0.001", "0.0025", "0.005", "0.01", "0.0125", "0.015", "0.02", "0.025", "0.04", "0.05"],   # 0.06 s .. 3 s
    "h": ["0", "0.00005", "0.0001", "0.00015", "0.00025", "0.0004", "0.0005", "0.00075"],                   # 0.18 s .. 2.7 s
    "L": ["0", "0.125", "0.25", "0.5", "0.75", "1", "1.5", "2", "3.25"],
    "mL": ["0", "125", "250", "500", "750", "1000", "1500", "2250"],
}
# Wait arguments (number, unit): 0, sub-tick, multiples and non-multiples of the tick, minutes and hours
WAITS = [["0", "s"], ["0.04", "s"], ["0.05", "s"], ["0.1", "s"], ["0.15", "s"], ["0.2", "s"], ["0.25", "s"], ["0.3", "s"],
         ["0.5", "s"], ["0.7", "s"], ["0.75", "s"], ["1", "s"], ["1.2", "s"], ["1.35", "s"], ["2", "s"], ["3", "s"],
         ["0.001", "min"], ["0.005", "min"], ["0.01", "min"], ["0.0125", "min"], ["0.02", "min"], ["0.05", "min"],
         ["0.0001", "h"], ["0.00025", "h"], ["0.0005", "h"]]
TOT_STEPS = [0.0, 0.125, 0.125, 0.25, 0.25, 0.5]     # binary-exact litres added per tick of a segment
IN2_STEPS = [2, 4, 8, 16, 30]
# thresholds of lines in a macro body: the body runs under whatever Base is in force at the call, so the numbers are small
# enough to be reachable as s, min (0.1 min = 6 s), L and mL
MACRO_THRESHOLDS = ["0", "0.005", "0.01", "0.02", "0.05", "0.1", "0.1", "0.2", "0.3", "0.5", "1"]
MACRO_WAITS = [["0.3", "s"], ["0.5", "s"], ["0.75", "s"], ["1", "s"], ["1.5", "s"], ["0.01", "min"], ["0.02", "min"], ["0.0002", "h"],
               ["0.1", "s"], ["0.05", "s"]]
# Block names are free text: two thirds of the blocks take their name from this small pool, so same-named blocks follow each
# other and nest in each other (the others keep the unique name b<line number> of pcode_gen)
BLOCK_NAMES = ["A", "A", "B", "Load"]
ALARM_CONDS = [[">=", 1], ["=", 1], ["=", 2], [">", 1], [">=", 2]]


def frac(s: str) -> Fraction:
    return Fraction(s)


def wait_seconds(w) -> Fraction:
    return frac(w[0]) * TIME_FACTOR[w[1]]


# ---------------------------------------------------------------------------------------------------------------
# strategies
# ---------------------------------------------------------------------------------------------------------------

def _thr(draw, base: str, p_num: int, p_den: int):
    """threshold string for the base unit in force, or None"""
    if draw(st.integers(1, p_den)) > p_num:
        return None
    return draw(st.sampled_from(THRESHOLDS[base]))


def _repeat_body(draw, thresholds: bool):
    """body of a macro (thresholds allowed) or an Alarm (none): 1-3 lines with at least one Wait or thresholded line"""
    out = []
    for i in range(draw(st.integers(1, 3))):
        k = draw(st.sampled_from(["wait", "wait", "mark", "mark", "quick"]))
        c: dict = {"k": k, "t": None}
        if k == "wait":
            c["w"] = draw(st.sampled_from(MACRO_WAITS))
            c["d"] = 0.0
        if thresholds and draw(st.integers(0, 2)) > 0:
            c["ts"] = draw(st.sampled_from(MACRO_THRESHOLDS))
        out.append(c)
    out.append({"k": "mark", "t": None})        # every Wait of the body has a successor in the body
    return out


@st.composite
def _body(draw, depth: int, n_max: int, st_base: list, in_block: bool, opts: dict):
    """st_base is a one-element list holding the Base unit in force at this point of the main thread (source order =
    execution order in the main thread), used only to draw thresholds of a sensible size."""
    out = []
    n = draw(st.integers(1 if depth == opts["depth"] else 0, n_max))
    kinds = ["mark"] * 5 + ["wait"] * 4 + ["quick", "slow", "set", "info", "base", "base", "blank", "comment"]
    if depth > 0:
        kinds += ["block"] * 4
    if opts.get("watch"):
        kinds += ["watch"] * 3
    if opts.get("alarm"):
        kinds += ["alarm"] * 3
    if opts.get("macro_name"):
        kinds += ["callmacro"] * (4 if in_block else 3)
    for _ in range(n):
        k = draw(st.sampled_from(kinds))
        nd: dict = {"k": k, "t": None}
        if k not in ("blank", "comment"):
            nd["ts"] = _thr(draw, st_base[0], 2, 5)
        if k == "slow":
            nd["n"] = draw(st.integers(1, 3))
        elif k == "set":
            nd["reg"] = draw(st.sampled_from([1, 2, 3]))
            nd["v"] = draw(st.integers(2, 9))
        elif k == "wait":
            nd["w"] = draw(st.sampled_from(WAITS))
            nd["d"] = 0.0
        elif k == "base":
            nd["u"] = draw(st.sampled_from(["s", "s", "s", "min", "h", "L", "L", "mL", "mL"]))
            st_base[0] = nd["u"]
        elif k == "block":
            nd["c"] = draw(_body(depth - 1, opts["children"], st_base, True, opts))
            nd["end"] = draw(st.sampled_from(["endblock"] * 5 + ["endblocks"]))
            nd["end_t"] = None
            nd["end_ts"] = _thr(draw, st_base[0], 1, 2)
            nd["bn"] = draw(st.sampled_from(BLOCK_NAMES)) if draw(st.integers(0, 2)) else None
        elif k == "callmacro":
            nd["name"] = opts["macro_name"]
        elif k == "alarm":
            # fires again whenever its condition holds after the body completed: its Waits run several times in one run
            op, val = draw(st.sampled_from(ALARM_CONDS))
            nd["cond"] = {"tag": "In2", "op": op, "val": val, "unit": None}
            nd["c"] = _repeat_body(draw, False)
            if nd["c"][0]["k"] != "wait" and draw(st.integers(0, 2)) > 0:
                nd["c"].insert(0, {"k": "wait", "t": None, "w": draw(st.sampled_from(MACRO_WAITS)), "d": 0.0})
        elif k == "watch":
            # interrupt body without thresholds, blocks, Base or End block: the clock of every main-thread line stays the one
            # of its lexical scope (see c03.py, signature late:interrupt-scope-shadows-program-scope)
            nd["cond"] = {"tag": "In2", "op": draw(st.sampled_from([">", ">="])), "val": draw(st.sampled_from([1, 2])), "unit": None}
            nd["c"] = [{"k": draw(st.sampled_from(["mark", "mark", "quick", "wait"])), "t": None} for _ in range(draw(st.integers(1, 3)))]
            for c in nd["c"]:
                if c["k"] == "wait":
                    c["w"] = draw(st.sampled_from(WAITS))
                    c["d"] = 0.0
        out.append(nd)
    return out


@st.composite
def cases(draw, opts: dict):
    base = draw(st.sampled_from(["s", "s", "s", "s", "min", "h", "L", "mL", None]))
    st_base = [base or DEFAULT_BASE]
    opts = dict(opts)
    macro = None
    if opts.get("macro") and draw(st.integers(0, 9)) < 4:
        # one macro, defined first, called from main-thread lines (also inside Blocks) any number of times
        macro = {"k": "macro", "t": None, "ts": None, "name": "M1", "c": _repeat_body(draw, True)}
        opts["macro_name"] = "M1"
    body = draw(_body(opts["depth"], opts["top"], st_base, False, opts))
    if draw(st.integers(0, 4)) == 0:
        # a Block with an inner Block (same name two times out of three) followed by thresholded lines of the outer block:
        # the outer block's clock must survive the end of the inner one
        def simple(n_max):
            out = []
            for _ in range(draw(st.integers(0, n_max))):
                if draw(st.integers(0, 1)):
                    out.append({"k": "wait", "t": None, "ts": None, "w": draw(st.sampled_from(WAITS[3:12])), "d": 0.0})
                else:
                    out.append({"k": "mark", "t": None, "ts": None})
            return out
        n1 = draw(st.sampled_from(BLOCK_NAMES))
        n2 = n1 if draw(st.integers(0, 2)) else draw(st.sampled_from(BLOCK_NAMES))
        pool = THRESHOLDS[st_base[0]][len(THRESHOLDS[st_base[0]]) // 3:]
        inner = {"k": "block", "t": None, "ts": None, "bn": n2, "c": simple(2), "end": "endblock", "end_t": None,
                 "end_ts": draw(st.sampled_from([None] + pool[:3]))}
        after = [{"k": "mark", "t": None, "ts": draw(st.sampled_from(pool))} for _ in range(draw(st.integers(1, 2)))]
        body = body + [{"k": "block", "t": None, "ts": None, "bn": n1, "c": simple(2) + [inner] + after, "end": "endblock",
                        "end_t": None, "end_ts": draw(st.sampled_from([None] + pool))}]
    if macro is not None:
        body = [macro] + body
        if draw(st.integers(0, 1)):
            # make the interesting pattern frequent: call, Base change, call again (the second one in a fresh Block half the time)
            u2 = draw(st.sampled_from(["s", "min", "min", "L", "mL"]))
            call = {"k": "callmacro", "t": None, "ts": None, "name": "M1"}
            tail = [dict(call), {"k": "base", "t": None, "ts": None, "u": u2}]
            if draw(st.integers(0, 1)):
                tail.append({"k": "block", "t": None, "ts": None, "c": [dict(call)], "end": "endblock", "end_t": None, "end_ts": None})
            else:
                tail.append(dict(call))
            body = body + tail
    tree = {"base": base, "body": body}
    max_ticks = opts["max_ticks"]
    # user Pause/Hold windows between ticks (closed again so that the run goes on)
    sched = []
    if draw(st.integers(0, 9)) < 7:
        for _ in range(draw(st.integers(1, 4))):
            a = draw(st.integers(2, min(70, max(3, max_ticks // 2))))
            ln = draw(st.integers(1, 8))
            kind = draw(st.sampled_from(["Pause", "Hold"]))
            sched.append([a, kind])
            sched.append([a + ln, "Un" + kind.lower()])
        sched.sort(key=lambda e: e[0])
    # directed sweep: a Pause/Hold request placed at an offset of -2..+2 ticks around the tick a Wait line is entered (found
    # by a run without these requests, see resolved_sched), released 3-15 ticks later
    rel = []
    if draw(st.integers(0, 9)) < 4:
        for _ in range(draw(st.integers(1, 2))):
            rel.append([draw(st.integers(0, 7)), draw(st.sampled_from([-2, -1, 0, 0, 0, 1, 2])), draw(st.sampled_from(["Pause", "Hold"])),
                        draw(st.integers(3, 15))])
    # totaliser: piecewise constant flow
    tot = []
    tick = 0
    while tick < max_ticks:
        step = draw(st.sampled_from(TOT_STEPS))
        ln = draw(st.integers(3, 40))
        if step:
            tot.append([tick, ln, step])
        tick += ln
    return {"tree": tree, "sched": sched, "tot": tot, "t0": draw(st.sampled_from(["epoch", "epoch", "zero"])),
            "in2": draw(st.sampled_from(IN2_STEPS)), "max_ticks": max_ticks, "rel": rel}


# ---------------------------------------------------------------------------------------------------------------
# rendering
# ---------------------------------------------------------------------------------------------------------------

class RLine:
    __slots__ = ("id", "text", "kind", "depth", "parent", "node", "implicit", "ts", "index", "thread", "bname")

    def __init__(self, **kw):
        for k, v in kw.items():
            setattr(self, k, v)


def render(tree) -> list[RLine]:
    """pcode_gen.render + exact threshold / Wait texts.  thread = 'main' or the id of the enclosing Watch/Alarm line."""
    lines = G.render(tree)
    by_id = {l.id: l for l in lines}
    out = []
    for i, l in enumerate(lines):
        node = l.node or {}
        ts = None
        if l.implicit:
            pnode = by_id[l.parent].node or {}
            ts = pnode.get("end_ts")
        elif l.kind not in ("blank", "comment"):
            ts = node.get("ts")
        text = l.text
        indent = "    " * l.depth
        body = text[len(indent):]
        bname = None
        if l.kind == "block":
            bname = node.get("bn") or l.payload
            body = "Block: %s" % bname
        if l.kind == "wait" and node.get("w"):
            body = "Wait: %s%s%s" % (node["w"][0], "" if node["w"][1] == "s" else " ", node["w"][1])
        if ts is not None:
            body = "%s %s" % (ts, body)
        thread = "main"
        p = l.parent
        while p is not None:
            if by_id[p].kind in ("watch", "alarm", "macro"):
                thread = p
                break
            p = by_id[p].parent
        out.append(RLine(id=l.id, text=indent + body, kind=l.kind, depth=l.depth, parent=l.parent, node=l.node,
                         implicit=l.implicit, ts=ts, index=i, thread=thread, bname=bname))
    return out


def with_threshold_zeroed(tree, line_id: str):
    """the metamorphic twin: the same tree with the threshold of exactly that line set to 0"""
    t2 = copy.deepcopy(tree)
    lines = G.render(t2)
    by_id = {l.id: l for l in lines}
    l = by_id[line_id]
    if l.implicit:
        by_id[l.parent].node["end_ts"] = "0"
    else:
        l.node["ts"] = "0"
    return t2


def valid_tree(tree) -> bool:
    """domain guard for replay / shrinking (arbitrary sub-cases)"""
    def ok_thr(x):
        if x is None:
            return True
        if not isinstance(x, str):
            return False
        try:
            f = Fraction(x)
        except (ValueError, ZeroDivisionError):
            return False
        return 0 <= f <= 10000 and all(ch in "0123456789." for ch in x) and not x.startswith(".") and not x.endswith(".")

    def ok_nodes(nodes, in_int, top=False):
        """in_int: False (main thread), "int" (Watch/Alarm body), "macro" (macro body, thresholds allowed)"""
        if not isinstance(nodes, list):
            return False
        for n in nodes:
            if not isinstance(n, dict) or n.get("t") is not None:
                return False
            k = n.get("k")
            if k not in ("mark", "quick", "slow", "set", "info", "base", "blank", "comment", "wait", "block", "watch", "alarm",
                         "macro", "callmacro"):
                return False
            if not ok_thr(n.get("ts")) or not ok_thr(n.get("end_ts")):
                return False
            if in_int and (k in ("block", "base", "watch", "alarm", "macro", "callmacro") or (in_int == "int" and n.get("ts") is not None)):
                return False
            if k == "macro":
                if not top or n.get("name") not in ("M1", "M2") or n.get("ts") is not None or not n.get("c") \
                        or not ok_nodes(n["c"], "macro"):
                    return False
            if k == "callmacro" and n.get("name") not in ("M1", "M2"):
                return False
            if k == "alarm":
                c = n.get("cond")
                if not (isinstance(c, dict) and c.get("tag") == "In2" and [c.get("op"), c.get("val")] in ALARM_CONDS
                        and "unit" in c and c["unit"] is None):
                    return False
                if not n.get("c") or not ok_nodes(n["c"], "int"):
                    return False
            if k == "slow" and not (isinstance(n.get("n"), int) and 1 <= n["n"] <= 4):
                return False
            if k == "set" and not (n.get("reg") in (1, 2, 3) and isinstance(n.get("v"), int) and 0 <= n["v"] <= 9):
                return False
            if k == "base" and n.get("u") not in BASE_UNITS:
                return False
            if k == "wait":
                w = n.get("w")
                if not (isinstance(w, list) and len(w) == 2 and w[1] in TIME_FACTOR and ok_thr(w[0]) and w[0] is not None):
                    return False
                if wait_seconds(w) > 20:
                    return False
            if k == "block":
                if n.get("end") not in ("endblock", "endblocks") or n.get("end_t") is not None:
                    return False
                if n.get("bn") is not None and n["bn"] not in BLOCK_NAMES:
                    return False
                if not ok_nodes(n.get("c", []), in_int):
                    return False
            if k == "watch":
                c = n.get("cond")
                if not (isinstance(c, dict) and c.get("tag") == "In2" and c.get("op") in (">", ">=") and c.get("val") in (1, 2)
                        and c.get("unit") is None):
                    return False
                if not n.get("c") or not ok_nodes(n["c"], "int"):
                    return False
        return True

    return isinstance(tree, dict) and tree.get("base") in BASE_UNITS + [None] and ok_nodes(tree.get("body"), False, True)


def valid_case(case) -> bool:
    if not isinstance(case, dict) or not valid_tree(case.get("tree")):
        return False
    try:
        render(case["tree"])        # domain guard only: the shrinker proposes arbitrary sub-structures (missing keys ...)
    except (KeyError, TypeError, ValueError, AttributeError, IndexError):
        return False
    mt = case.get("max_ticks")
    if not (isinstance(mt, int) and 1 <= mt <= 3000) or case.get("t0") not in ("epoch", "zero"):
        return False
    if case.get("in2", 4) not in IN2_STEPS:
        return False
    rel = case.get("rel", [])
    if not isinstance(rel, list) or len(rel) > 4:
        return False
    for e in rel:
        if not (isinstance(e, list) and len(e) == 4 and isinstance(e[0], int) and 0 <= e[0] <= 50 and isinstance(e[1], int)
                and -3 <= e[1] <= 3 and e[2] in ("Pause", "Hold") and isinstance(e[3], int) and 1 <= e[3] <= 40):
            return False
    sched, tot = case.get("sched"), case.get("tot")
    if not isinstance(sched, list) or not isinstance(tot, list):
        return False
    for e in sched:
        if not (isinstance(e, list) and len(e) == 2 and isinstance(e[0], int) and e[0] >= 0 and e[1] in USER_CMDS):
            return False
    for e in tot:
        if not (isinstance(e, list) and len(e) == 3 and isinstance(e[0], int) and e[0] >= 0 and isinstance(e[1], int)
                and 0 <= e[1] <= 3000 and e[2] in TOT_STEPS):
            return False
    return True


# ---------------------------------------------------------------------------------------------------------------
# running
# ---------------------------------------------------------------------------------------------------------------

class Run:
    """what one execution of a case showed"""
    __slots__ = ("ticks", "first_start", "starts", "events", "rejected", "error", "raised", "method_end", "tot_at")


def resolved_sched(case) -> list:
    """case["sched"] plus the directed requests of case["rel"] as absolute [tick, command] entries.  The entry tick of the
    targeted Wait line (ordinal modulo the number of Wait lines, source order) is taken from a run of the same case without
    the directed requests (deterministic, so the case stays self-contained)."""
    sched = [list(e) for e in case["sched"]]
    rel = case.get("rel") or []
    if not rel:
        return sched
    waits = [l for l in render(case["tree"]) if l.kind == "wait"]
    if not waits:
        return sched
    for k, off, kind, ln in rel:
        target = waits[k % len(waits)]
        r0 = run(case, until_started=target.id, sched=case["sched"])
        t = r0.first_start.get(target.id)
        if t is None or r0.raised is not None or r0.error is not None:
            continue
        a = max(1, t + off)
        sched.append([a, kind])
        sched.append([a + ln, "Un" + kind.lower()])
    sched.sort(key=lambda e: e[0])
    return sched


def run(case, tree=None, until_started: str | None = None, max_ticks: int | None = None, sched=None) -> Run:
    """Execute the case (optionally with another tree: the twin).  Stops at max_ticks, or 6 ticks after the method ended,
    or as soon as the line `until_started` is reported started.
    ticks[i] = (no, time, state_at_end, prev_state);  first_start[line_id] = tick no at which get_method_state() first
    listed the line as started/executed/failed."""
    from vp.harness.engine_h import EngineHarness, T0
    lines = render(tree if tree is not None else case["tree"])
    t0 = T0 if case["t0"] == "epoch" else 0.0
    h = EngineHarness([(l.id, l.text) for l in lines], t0=t0)
    r = Run()
    r.ticks, r.first_start, r.rejected, r.error, r.raised, r.method_end, r.tot_at = [], {}, 0, None, None, None, {}
    r.starts = {}          # line id -> ticks at which an execution of the line was first reported started
    status: dict = {}      # line id -> 'S' started / 'E' executed / 'F' failed, as reported at the end of the previous tick
    sched_in = case["sched"] if sched is None else sched
    sched: dict = {}
    for t, c in sched_in:
        sched.setdefault(t, []).append(c)
    tot_add: dict = {}
    for t, ln, v in case["tot"]:
        for j in range(t, t + ln):
            tot_add[j] = tot_add.get(j, 0.0) + v
    limit = case["max_ticks"] if max_ticks is None else max_ticks
    in2 = case.get("in2", 4)
    try:
        tot = 1.0 + tot_add.get(0, 0.0)       # the totaliser does not start at 0: the accumulators must subtract their origin
        h.set_inputs(Tot=tot, In2=0.0)
        o = h.start()
        r.tot_at[o.no] = tot
        r.ticks.append((o.no, o.time, o.state, "Stopped"))
        prev_state = o.state
        end_at = None
        ev_idx = 0
        while True:
            no = h.tick_no + 1
            if no > limit:
                break
            for c in sched.get(no, []):
                try:
                    h.user(c)
                except ValueError:
                    r.rejected += 1
            if no in tot_add:
                tot += tot_add[no]
            # In2 rises with the tick number: Watch conditions 'In2 > 1' become true a few ticks into the run
            h.set_inputs(Tot=tot, In2=float(min(no // in2, 3)))
            o = h.tick()
            r.tot_at[o.no] = tot
            r.ticks.append((o.no, o.time, o.state, prev_state))
            prev_state = o.state
            if o.raised is not None:
                r.raised = o.raised
                break
            ms = h.method_state()
            cur = {lid: "S" for lid in ms.started_line_ids}
            cur.update({lid: "E" for lid in ms.executed_line_ids})
            cur.update({lid: "F" for lid in ms.failed_line_ids})
            for lid, stt in cur.items():
                was = status.get(lid)
                # a new execution: the line was not reported at all after the previous tick (never run, or reset by a new
                # macro call / Alarm firing), or it was reported executed and is now reported started (not yet executed)
                # again (first line of a macro body: reset and started in the tick of the call)
                if was is None or (was in "EF" and stt == "S"):
                    r.starts.setdefault(lid, []).append(o.no)
                    r.first_start.setdefault(lid, o.no)
            status = cur
            if until_started is not None and until_started in r.first_start:
                break
            if h.last_error is not None:
                r.error = "%s: %s" % (type(h.last_error).__name__, str(h.last_error)[:200])
                break
            if end_at is None and any(e[1] == "method_end" for e in h.events[ev_idx:]):
                end_at = o.no + 6
                r.method_end = o.no
            ev_idx = len(h.events)
            if end_at is not None and o.no >= end_at:
                break
        r.events = list(h.events)
    finally:
        h.close()
    return r
