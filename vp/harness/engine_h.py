"""EngineHarness: the real openpectus Engine on a purely virtual clock.

* time: every module of openpectus that reads the wall clock gets its module attribute `time`
  replaced by a proxy whose time() returns the harness' virtual now (identical to the tick time
  inside a tick).  uuid.uuid4 is replaced by a counter (reproducible run ids / instance ids).
* hardware: RecHW, a HardwareLayerBase subclass with a register memory, a log of every physical
  write and per-tick input values supplied by the case.
* UOD: fixed instrumented unit (see build_uod) whose commands log init/exec/finalize callbacks.
* observation: events (Mark assignments, command callbacks, hardware writes, listener events)
  are appended to `h.events` as tuples (tick_no, kind, ...); `h.tick()` returns a TickObs.

Nothing here modifies /repo; all instrumentation is applied from the outside at run time.
"""
from __future__ import annotations

import importlib
import logging
import sys
import time as _real_time
import types
import uuid as _uuid
from typing import Any

logging.disable(logging.CRITICAL)

# ---------------------------------------------------------------------------------------------
# virtual time / deterministic uuid
# ---------------------------------------------------------------------------------------------


class _VT:
    now: float = 1_700_000_000.0


VT = _VT()


class _TimeProxy(types.ModuleType):
    """Stands in for the `time` module inside openpectus modules."""

    def __init__(self):
        super().__init__("time")

    def time(self):
        return VT.now

    def __getattr__(self, name):
        return getattr(_real_time, name)


_TIME_PROXY = _TimeProxy()

_PATCH_MODULES = [
    "openpectus.lang.exec.tags", "openpectus.lang.exec.tags_impl", "openpectus.lang.exec.units",
    "openpectus.engine.internal_commands_impl", "openpectus.engine.hardware_recovery",
    "openpectus.engine.archiver", "openpectus.engine.engine_message_builder",
    "openpectus.lang.exec.clock",
]
_uuid_counter = [0]


def _fake_uuid4():
    _uuid_counter[0] += 1
    return _uuid.UUID(int=(0x4000 << 64) | _uuid_counter[0])


_patched = False


def patch_time_and_uuid():
    global _patched
    if _patched:
        return
    for name in _PATCH_MODULES:
        try:
            m = importlib.import_module(name)
        except Exception:  # pragma: no cover - a module that does not import is reported by the property using it
            continue
        if hasattr(m, "time") and isinstance(getattr(m, "time"), types.ModuleType):
            setattr(m, "time", _TIME_PROXY)
    _uuid.uuid4 = _fake_uuid4
    _patched = True


patch_time_and_uuid()

from openpectus.engine.engine import Engine, EngineTiming  # noqa: E402
from openpectus.engine.hardware import HardwareLayerBase, HardwareLayerException, Register, RegisterDirection  # noqa: E402
from openpectus.lang.exec.clock import Clock  # noqa: E402
from openpectus.lang.exec.errors import MethodEditError  # noqa: E402
from openpectus.lang.exec.events import EventListener  # noqa: E402
from openpectus.lang.exec.regex import RegexCategorical, RegexNumber  # noqa: E402
from openpectus.lang.exec.tags import SystemTagName, Tag, TagDirection  # noqa: E402
from openpectus.lang.exec.tags_impl import ReadingTag, SelectTag  # noqa: E402
from openpectus.lang.exec.timer import NullTimer  # noqa: E402
from openpectus.lang.exec.uod import UodBuilder, UodCommand  # noqa: E402
import openpectus.protocol.models as Mdl  # noqa: E402

T0 = 1_700_000_000.0

# registers / tags of the harness unit
OUT_SAFE = {"Out1": 0.0, "Out2": 1.0}     # output registers with a safe value
OUT_PLAIN = ["Out3"]                       # output register without safe value
INPUTS = {"In1": "L/h", "In2": None, "Temp": "degC", "Tot": "L"}   # input registers -> unit


class VirtualClock(Clock):
    def get_time(self) -> float:
        return VT.now


class RecHW(HardwareLayerBase):
    """Recording hardware: memory + write log + scripted inputs."""

    def __init__(self, harness: "EngineHarness", init_mem: dict[str, Any] | None = None):
        super().__init__()
        self.h = harness
        self.mem: dict[str, Any] = dict(init_mem or {})
        self.inputs: dict[str, Any] = {k: 0.0 for k in INPUTS}
        self.fail_read = False
        self.fail_write = False
        self.n_write_batches = 0

    def read(self, r: Register) -> Any:
        if self.fail_read:
            raise HardwareLayerException("scripted read failure")
        if r.name in self.inputs:
            return self.inputs[r.name]
        return self.mem.get(r.name)

    def write(self, value: Any, r: Register) -> None:
        if self.fail_write:
            raise HardwareLayerException("scripted write failure")
        self.mem[r.name] = value
        self.h.events.append((self.h.tick_no, "hw_write", r.name, value))

    def write_batch(self, values, registers):
        self.n_write_batches += 1
        super().write_batch(values, registers)


class _Listener(EventListener):
    def __init__(self, h: "EngineHarness"):
        super().__init__()
        self.h = h

    def _e(self, *a):
        self.h.events.append((self.h.tick_no,) + a)

    def on_start(self, run_id):
        self._e("start", run_id)

    def on_stop(self):
        self._e("stop")
        super().on_stop()

    def on_block_start(self, bi):
        self._e("block_start", bi.name)

    def on_block_end(self, bi, nbi):
        self._e("block_end", bi.name, nbi.name if nbi is not None else None)

    def on_scope_start(self, si):
        self._e("scope_start", si.scope_type, si.node_id)

    def on_scope_activate(self, si):
        self._e("scope_activate", si.scope_type, si.node_id)

    def on_scope_end(self, si):
        self._e("scope_end", si.scope_type, si.node_id)

    def on_method_end(self):
        self._e("method_end")

    def on_method_error(self, exception):
        self._e("method_error", type(exception).__name__, str(exception)[:300])
        self.h.last_error = exception

    def on_notify_command(self, argument):
        self._e("notify", argument)

    def on_runstate_change(self, sc):
        self._e("runstate", str(sc))

    def on_tick(self, tick_time, increment_time):
        self.h.listener_ticks.append((self.h.tick_no, tick_time, increment_time))


def build_uod(h: "EngineHarness", hw: HardwareLayerBase):
    """The fixed instrumented unit.  Commands (all log their callbacks into h.events):

    Quick[: text]   completes in its first iteration
    Slow: n         n iterations (n>=1); iteration i writes Out1 = 100*n + i
    OvA: n / OvB: n overlapping pair, n iterations, write Out2 = 10*n+i (+0.5 for OvB)
    Set1: v / Set2: v / Set3: v   set Out1/Out2/Out3 to float(v), complete at once
    Flow: <number> <L/h|L/min>    regex-number argument, sets Out3 to the number
    Valve: <Open|Closed>          regex-categorical argument
    Bad[: x]        argument parser returns None (invalid arguments)
    Boom            exec function raises
    Open1 / Open2   no argument; set Out1=7.0 / Out2=8.0 (user-issued output commands)
    """

    def log(cmd: UodCommand, phase: str, args=None):
        h.events.append((h.tick_no, "cmd", cmd.name, cmd.instance_id, phase, args, cmd.get_iteration_count()))

    def _out(cmd: UodCommand, tag: str, value):
        """a command callback sets an output tag (logged: the ground truth of 'commanded' output values)"""
        h.events.append((h.tick_no, "out_set", tag, value, cmd.name, cmd.instance_id))
        cmd.context.tags[tag].set_value(value, VT.now)

    def mk_init(cmd):
        log(cmd, "init")

    def mk_final(cmd):
        log(cmd, "finalize")

    def quick(cmd: UodCommand, value=""):
        log(cmd, "exec", value)
        cmd.set_complete()

    def slow(cmd: UodCommand, value):
        n = int(float(value))
        it = cmd.get_iteration_count()
        log(cmd, "exec", value)
        _out(cmd, "Out1", float(100 * n + it))
        cmd.set_progress(min(1.0, (it + 1) / max(n, 1)))
        if it >= n - 1:
            cmd.set_complete()

    def ov(off):
        def f(cmd: UodCommand, value):
            n = int(float(value))
            it = cmd.get_iteration_count()
            log(cmd, "exec", value)
            _out(cmd, "Out2", float(10 * n + it) + off)
            if it >= n - 1:
                cmd.set_complete()
        return f

    def setter(tag):
        def f(cmd: UodCommand, value):
            log(cmd, "exec", value)
            _out(cmd, tag, float(value))
            cmd.set_complete()
        return f

    def opener(tag, v):
        def f(cmd: UodCommand):
            log(cmd, "exec", "")
            _out(cmd, tag, v)
            cmd.set_complete()
        return f

    def keeper(tag, v, n):
        # argument-less command (a user can issue it as a control command) that runs n ticks and writes its output in every one
        def f(cmd: UodCommand):
            it = cmd.get_iteration_count()
            log(cmd, "exec", "")
            _out(cmd, tag, v)
            cmd.set_progress(min(1.0, (it + 1) / n))
            if it >= n - 1:
                cmd.set_complete()
        return f

    def flow(cmd: UodCommand, number, number_unit):
        log(cmd, "exec", "%s %s" % (number, number_unit))
        _out(cmd, "Out3", float(number))
        cmd.set_complete()

    def valve(cmd: UodCommand, option):
        log(cmd, "exec", option)
        cmd.set_complete()

    def bad(cmd: UodCommand, **kw):
        log(cmd, "exec", "?")
        cmd.set_complete()

    def boom(cmd: UodCommand, value=""):
        log(cmd, "exec", value)
        raise RuntimeError("Boom command failed on purpose")

    b = (UodBuilder()
         .with_instrument("VerifUnit")
         .with_author("verif", "verif@example.org")
         .with_filename(__file__)
         .with_hardware(hw)
         .with_location("nowhere"))
    for name, safe in OUT_SAFE.items():
        b.with_hardware_register(name, RegisterDirection.Write, safe_value=safe)
        # both UOD shapes the repository uses: a tag declared as Output, and (like the plain tags of demo_uod.py) a tag
        # without a declared direction whose register has write direction and a safe value
        if name == "Out2":
            b.with_tag(Tag(name, value=safe, unit=None))
        else:
            b.with_tag(Tag(name, value=safe, unit=None, direction=TagDirection.Output))
    for name in OUT_PLAIN:
        b.with_hardware_register(name, RegisterDirection.Write)
        b.with_tag(Tag(name, value=0.0, unit="L/h", direction=TagDirection.Output))
    for name, unit in INPUTS.items():
        b.with_hardware_register(name, RegisterDirection.Read)
        b.with_tag(ReadingTag(name, unit))
    b.with_tag(Tag("Str", value="A", unit=None))
    b.with_tag(SelectTag("Sel", value="X", unit=None, choices=["X", "Y", "Z"]))
    b.with_accumulated_volume("Tot")
    b.with_command(name="Quick", exec_fn=quick, init_fn=mk_init, finalize_fn=mk_final)
    b.with_command(name="Slow", exec_fn=slow, init_fn=mk_init, finalize_fn=mk_final)
    b.with_command(name="OvA", exec_fn=ov(0.0), init_fn=mk_init, finalize_fn=mk_final)
    b.with_command(name="OvB", exec_fn=ov(0.5), init_fn=mk_init, finalize_fn=mk_final)
    b.with_command_overlap(["OvA", "OvB"])
    b.with_command(name="Set1", exec_fn=setter("Out1"), init_fn=mk_init, finalize_fn=mk_final)
    b.with_command(name="Set2", exec_fn=setter("Out2"), init_fn=mk_init, finalize_fn=mk_final)
    b.with_command(name="Set3", exec_fn=setter("Out3"), init_fn=mk_init, finalize_fn=mk_final)
    b.with_command_regex_arguments(name="Flow", arg_parse_regex=RegexNumber(units=["L/h", "L/min"]),
                                   exec_fn=flow, init_fn=mk_init, finalize_fn=mk_final)
    b.with_command_regex_arguments(name="Valve", arg_parse_regex=RegexCategorical(exclusive_options=["Open", "Closed"]),
                                   exec_fn=valve, init_fn=mk_init, finalize_fn=mk_final)
    b.with_command(name="Bad", exec_fn=bad, init_fn=mk_init, finalize_fn=mk_final, arg_parse_fn=lambda a: None)
    b.with_command(name="Boom", exec_fn=boom, init_fn=mk_init, finalize_fn=mk_final)
    # argument-less commands a user can issue directly (execute_control_command_from_user), also while paused
    b.with_command(name="Open1", exec_fn=opener("Out1", 7.0), init_fn=mk_init, finalize_fn=mk_final, arg_parse_fn=None)
    b.with_command(name="Open2", exec_fn=opener("Out2", 8.0), init_fn=mk_init, finalize_fn=mk_final, arg_parse_fn=None)
    b.with_command(name="Keep1", exec_fn=keeper("Out1", 6.0, 4), init_fn=mk_init, finalize_fn=mk_final, arg_parse_fn=None)
    b.with_command(name="Keep2", exec_fn=keeper("Out2", 5.0, 3), init_fn=mk_init, finalize_fn=mk_final, arg_parse_fn=None)
    uod = b.build()
    uod.build_commands()
    return uod


UOD_COMMANDS = ["Quick", "Slow", "OvA", "OvB", "Set1", "Set2", "Set3", "Flow", "Valve", "Bad", "Boom", "Open1", "Open2"]


class TickObs:
    __slots__ = ("no", "time", "inc", "state", "status", "run_id", "block", "raised")

    def __init__(self, no, t, inc, state, status, run_id, block, raised):
        self.no, self.time, self.inc, self.state, self.status, self.run_id, self.block, self.raised = \
            no, t, inc, state, status, run_id, block, raised


def to_method(lines) -> Mdl.Method:
    """lines: list[str] (ids id1..idN assigned) or list[(id, content)]"""
    ml = []
    for i, l in enumerate(lines):
        if isinstance(l, (tuple, list)):
            ml.append(Mdl.MethodLine(id=str(l[0]), content=l[1]))
        else:
            ml.append(Mdl.MethodLine(id="id%d" % (i + 1), content=l))
    return Mdl.Method(lines=ml, version=0)


class EngineHarness:
    def __init__(self, lines=None, *, t0: float = T0, interval: float = 0.1, hw_init: dict | None = None,
                 wrap_hw=None, enable_archiver: bool = False):
        _uuid_counter[0] = 0     # ids (run id, instance ids) are a function of the case only: the engine iterates sets of them
        VT.now = t0
        self.t0 = t0
        self.interval = interval
        self.tick_no = -1          # harness tick counter (== engine._tick_number once ticking)
        self.events: list[tuple] = []
        self.listener_ticks: list[tuple] = []
        self.last_error: Exception | None = None
        self.hw = RecHW(self, hw_init)
        hwl = self.hw if wrap_hw is None else wrap_hw(self.hw)
        self.uod = build_uod(self, hwl)
        hwl.connect()
        self.engine = Engine(self.uod, EngineTiming(VirtualClock(), NullTimer(), interval, 1.0), enable_archiver=enable_archiver)
        self.uod.validate_configuration()   # sanity: the harness unit is a valid UOD (needs engine system tags)
        self.listener = _Listener(self)
        self.engine.emitter.add_listener(self.listener)
        # Mark assignments: wrap the instance attribute of the real Mark tag
        mark = self.engine.tags[SystemTagName.MARK]
        orig = mark.set_value

        def _set_mark(val, tick_time, *a, **k):
            self.events.append((self.tick_no, "mark", val))
            return orig(val, tick_time, *a, **k)
        mark.set_value = _set_mark   # type: ignore
        self.engine.run(skip_timer_start=True)
        if lines is not None:
            self.engine.set_method(to_method(lines))

    # -- driving --------------------------------------------------------------------------------
    def set_inputs(self, **vals):
        self.hw.inputs.update(vals)

    def tick(self, inc: float | None = None) -> TickObs:
        inc = self.interval if inc is None else inc
        self.tick_no += 1
        VT.now = VT.now + inc
        raised = None
        try:
            self.engine.tick(VT.now, inc)
        except Exception as ex:   # recorded, judged by C13
            raised = ex
        e = self.engine
        st = e._system_tags
        return TickObs(self.tick_no, VT.now, inc, str(st[SystemTagName.SYSTEM_STATE].get_value()),
                       str(st[SystemTagName.METHOD_STATUS].get_value()), st[SystemTagName.RUN_ID].get_value(),
                       st[SystemTagName.BLOCK].get_value(), raised)

    def ticks(self, n: int) -> list[TickObs]:
        return [self.tick() for _ in range(n)]

    def start(self):
        """user Start + one tick executing it"""
        self.engine.execute_control_command_from_user("Start")
        return self.tick()

    def user(self, name: str):
        """user control command; raises ValueError when rejected"""
        self.engine.execute_control_command_from_user(name)

    def set_method(self, lines):
        return self.engine.set_method(to_method(lines))

    def inject(self, pcode: str):
        self.engine.inject_code(pcode)

    # -- views ----------------------------------------------------------------------------------
    @property
    def state(self) -> str:
        return str(self.engine._system_tags[SystemTagName.SYSTEM_STATE].get_value())

    def tagv(self, name):
        return self.engine.tags[name].get_value()

    def method_state(self):
        return self.engine.method_manager.get_method_state()

    def runlog(self):
        return self.engine.tracking.get_runlog()

    def marks(self) -> list[str]:
        return [e[2] for e in self.events if e[1] == "mark"]

    def cmd_events(self):
        return [e for e in self.events if e[1] == "cmd"]

    def close(self):
        try:
            self.engine.cleanup()
        except Exception:
            pass


__all__ = ["EngineHarness", "VT", "T0", "to_method", "OUT_SAFE", "OUT_PLAIN", "INPUTS", "UOD_COMMANDS", "MethodEditError"]
