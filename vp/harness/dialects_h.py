"""P-code dialects and the mixed campaign used by C13 and C15 (DESIGN.md 2.6).

* three dialects of method text, all rendered to plain lines [id, text] (so a case is self-contained JSON and the
  shrinker can drop / shorten single lines):
    well-formed          pcode_gen.program -> render
    semantically broken  templates with unknown names, bad units / arguments, missing conditions, missing and
                         recursive macros (the *judged* known-bad kinds, see `bad_kind`) plus unjudged broken forms
    lexically hostile    arbitrary unicode, random indentation, tabs, stray ':' / '#', token soup
* recognisers that work on the TEXT alone (never on how a line was generated), so an oracle expectation can not
  survive a shrink step that changed the text:
    bad_kind(text)        the known-bad kind of a line or None
    payload_effect(text)  the unique observable effect of a well-formed generated line (C15, completed items)
    benign(text)          finite, non run-state changing, well-formed line (corrected-method epilogue of C13)
* campaign(): method + schedule of ticks, user control commands, injected snippets, live edits, input changes and
  cancel/force requests on run-log items (index modulo the currently offered candidates).
* run(case): executes a campaign on the EngineHarness and returns one record per tick.
"""
from __future__ import annotations

import re

from hypothesis import strategies as st

from vp.harness import pcode_gen as G

# ---------------------------------------------------------------------------------------------------------------
# recognisers (text only)
# ---------------------------------------------------------------------------------------------------------------

_THR = r"(?:\d+(?:\.\d+)? )?"


def split_indent(text: str):
    """-> (indent, rest); indent is None when the leading whitespace is not made of spaces only"""
    rest = text.lstrip(" ")
    n = len(text) - len(rest)
    if rest[:1].isspace():
        return None, rest
    return n, rest


_BAD = [
    ("unknown-instruction", re.compile(_THR + r"Zork\d*(?:: \d+)?$")),
    ("bad-uod-args", re.compile(_THR + r"(?:Bad: \d+|Flow: \d+ kg|Valve: Half\d+)$")),
    ("bad-interpreter-args", re.compile(_THR + r"(?:Wait: w\d+|Run counter: r\d+|Base: parsec\d+)$")),
    ("bad-engine-args", re.compile(_THR + r"(?:Pause: p\d+|Hold: h\d+)$")),
    ("incomparable-units", re.compile(_THR + r"(?:Watch|Alarm): (?:In1 [<>] \d+ degC|Temp [<>] \d+ L/h|In1 [<>] \d+|In2 [<>] \d+ L/h)$")),
    ("unknown-tag", re.compile(_THR + r"(?:(?:Watch|Alarm): Nope\d+ [<>] \d+|Simulate: Nope\d+ = \d+|Simulate off: Nope\d+)$")),
    ("missing-condition", re.compile(_THR + r"(?:(?:Watch|Alarm)|(?:Watch|Alarm): In1 [<>]|(?:Watch|Alarm): [<>] \d+)$")),
    ("missing-macro", re.compile(_THR + r"Call macro: Nope\d+$")),
]
_REC_CALL = re.compile(_THR + r"Call macro: (R\d+[ab]?)$")
BAD_KINDS = [k for k, _ in _BAD] + ["recursive-macro"]


def bad_kind(text: str, all_texts=None):
    """known-bad kind of a line (text only).  'recursive-macro' needs the whole method: a top-level call of a macro
    R<n> whose definition directly calls itself (or R<n>a <-> R<n>b); the oracle additionally requires the definitions
    to be reported executed before the call starts."""
    ind, rest = split_indent(text)
    if ind is None or ind % 4 != 0:
        return None
    for kind, rx in _BAD:
        if rx.match(rest):
            if kind in ("missing-macro", "unknown-tag") and all_texts is not None:
                # names Nope<n> must not be defined anywhere (a shrunk / hostile case could define them)
                if any("Macro: Nope" in t for t in all_texts):
                    return None
            return kind
    return None


def recursive_call(text: str):
    """-> macro name when the line is a top-level 'Call macro: R<n>[ab]' else None"""
    ind, rest = split_indent(text)
    if ind != 0:
        return None
    m = _REC_CALL.match(rest)
    return m.group(1) if m else None


def recursive_defs(lines, name: str):
    """ids of the top-level macro definitions that make `name` recursive, or None.
    direct:   Macro: R7 / '    Call macro: R7'
    indirect: Macro: R7a / '    Call macro: R7b'   and   Macro: R7b / '    Call macro: R7a'"""
    defs = {}
    for i, (lid, text) in enumerate(lines):
        m = re.match(r"Macro: (R\d+[ab]?)$", text)
        if m and i + 1 < len(lines):
            m2 = re.match(r"    Call macro: (R\d+[ab]?)$", lines[i + 1][1])
            nxt_ind = split_indent(lines[i + 2][1])[0] if i + 2 < len(lines) else 0
            if m2 and (nxt_ind == 0 or i + 2 >= len(lines)):
                if m.group(1) in defs:
                    return None     # re-defined: not judged
                defs[m.group(1)] = (lid, m2.group(1))
    if name not in defs:
        return None
    callee = defs[name][1]
    if callee == name:
        return [defs[name][0]]
    if callee in defs and defs[callee][1] == name:
        return [defs[name][0], defs[callee][0]]
    return None


_PAYLOAD = [
    ("mark", re.compile(_THR + r"Mark: (m\d+)$")),
    ("quick", re.compile(_THR + r"Quick: (q\d+)$")),
    ("slow", re.compile(_THR + r"Slow: (\d\.\d{3})$")),
    ("set", re.compile(_THR + r"Set[123]: (\d\.\d{3})$")),
    ("flow", re.compile(_THR + r"Flow: (\d\.\d{3} L/(?:h|min))$")),
    ("block", re.compile(_THR + r"Block: (b\d+)$")),
    ("notify", re.compile(_THR + r"Notify: (y\d+)$")),
]


def payload_effect(text: str):
    """-> (kind, payload, runlog_name) for generated well-formed lines with a unique observable effect"""
    ind, rest = split_indent(text)
    if ind is None or ind % 4 != 0:
        return None
    for kind, rx in _PAYLOAD:
        m = rx.match(rest)
        if m:
            name = re.sub("^" + _THR, "", rest) if re.match(r"\d", rest) else rest
            return kind, m.group(1), name
    return None


_BENIGN = re.compile(
    r"(?:Mark: [a-z]+\d+|Quick: q\d+|Slow: \d\.\d{3}|OvA: \d\.\d{3}|OvB: \d\.\d{3}|Set[123]: \d\.\d{3}|Flow: \d\.\d{3} L/(?:h|min)|"
    r"Valve: (?:Open|Closed)|Wait: (?:0|0\.\d+|1)s|Info: i\d+|Notify: y\d+|Increment run counter|Run counter: \d|Batch: B\d+|"
    r"Base: s|Block: b\d+|End block|End blocks|Macro: M\d+|Call macro: M\d+|# c\d+|"
    r"(?:Watch|Alarm): (?:In1 (?:<|<=|>|>=|=|!=) \d+ L/(?:h|min)|In2 (?:<|<=|>|>=|=|!=) \d+|Temp (?:<|<=|>|>=|=|!=) \d+ (?:degC|K|degF)))?$")


def benign(text: str) -> bool:
    ind, rest = split_indent(text)
    return ind is not None and ind % 4 == 0 and bool(_BENIGN.match(rest))


def is_container(text: str) -> bool:
    return bool(re.match(r" *" + _THR + r"(?:Watch|Alarm|Block|Macro)\b", text))


# ---------------------------------------------------------------------------------------------------------------
# generators
# ---------------------------------------------------------------------------------------------------------------

CFG_FULL = G.GenCfg(kinds={"mark": 8, "quick": 2, "slow": 3, "ova": 1, "ovb": 1, "set": 2, "flow": 1, "valve": 1, "wait": 3,
                           "info": 1, "notify": 1, "incr": 1, "runcounter": 1, "batch": 1, "simulate": 1, "simoff": 1, "base": 1,
                           "blank": 1, "comment": 1, "pause": 1, "hold": 1, "callmacro": 2, "endblock": 1, "endblocks": 1,
                           "stop": 1, "restart": 1, "block": 4, "watch": 4, "alarm": 2, "macro": 2},
                    max_depth=3, max_top=7, max_children=3, thresholds=True, base_first="s", wait_max=1.0)
CFG_DEEP = G.GenCfg(kinds=dict(CFG_FULL.kinds), max_depth=4, max_top=10, max_children=4, thresholds=True, base_first="s", wait_max=1.5,
                    threshold_max=1.5)
CFG_FIX = G.GenCfg(kinds={"mark": 8, "quick": 2, "slow": 2, "set": 2, "wait": 2, "notify": 1, "blank": 1, "comment": 1,
                          "callmacro": 1, "block": 3, "watch": 3, "alarm": 1, "macro": 1},
                   max_depth=2, max_top=6, max_children=3, thresholds=False, base_first="s", wait_max=1.0)

SYSTEM_TAGS = ["Run Time", "Process Time", "Clock", "Run Counter", "Base", "System State", "Method Status", "Block", "Mark",
               "Batch Name", "Run Id", "Block Time", "Scope Time", "Connection Status", "Accumulated Volume", "Block Volume"]
UOD_TAGS = ["In1", "In2", "Temp", "Tot", "Out1", "Out2", "Out3", "Str", "Sel"]


@st.composite
def bad_item(draw, n: int):
    """one judged known-bad construct -> list of (indent_delta, text); the first line is the failing one unless noted"""
    kind = draw(st.sampled_from(["unknown-instruction"] * 3 + ["bad-uod-args"] * 3 + ["bad-interpreter-args"] * 2 + ["bad-engine-args"] +
                                ["incomparable-units"] * 3 + ["unknown-tag"] * 3 + ["missing-condition"] * 2 + ["missing-macro"] * 2 +
                                ["recursive-macro"] * 2))
    op = draw(st.sampled_from(["<", ">"]))
    body = [(1, "Mark: mb%d" % n)]
    if kind == "unknown-instruction":
        return [(0, draw(st.sampled_from(["Zork: %d" % n, "Zork%d" % n, "Zork"])))]
    if kind == "bad-uod-args":
        return [(0, draw(st.sampled_from(["Bad: %d" % n, "Flow: %d kg" % n, "Valve: Half%d" % n])))]
    if kind == "bad-interpreter-args":
        return [(0, draw(st.sampled_from(["Wait: w%d" % n, "Run counter: r%d" % n, "Base: parsec%d" % n])))]
    if kind == "bad-engine-args":
        return [(0, draw(st.sampled_from(["Pause: p%d" % n, "Hold: h%d" % n])))]
    if kind == "incomparable-units":
        w = draw(st.sampled_from(["Watch", "Watch", "Alarm"]))
        c = draw(st.sampled_from(["In1 %s %d degC" % (op, n), "Temp %s %d L/h" % (op, n), "In1 %s %d" % (op, n), "In2 %s %d L/h" % (op, n)]))
        return [(0, "%s: %s" % (w, c))] + body
    if kind == "unknown-tag":
        f = draw(st.sampled_from(["Watch: Nope%d %s 3" % (n, op), "Alarm: Nope%d %s 1" % (n, op), "Simulate: Nope%d = 3" % n,
                                  "Simulate off: Nope%d" % n]))
        return [(0, f)] + (body if f[0] in "WA" else [])
    if kind == "missing-condition":
        w = draw(st.sampled_from(["Watch", "Alarm"]))
        f = draw(st.sampled_from([w, "%s: In1 %s" % (w, op), "%s: %s %d" % (w, op, n)]))
        return [(0, f)] + body
    if kind == "missing-macro":
        return [(0, "Call macro: Nope%d" % n)]
    # recursive macro (top level only; the caller places it at indentation 0)
    if draw(st.booleans()):
        return [(0, "Macro: R%d" % n), (1, "Call macro: R%d" % n), (0, "Call macro: R%d" % n)]
    return [(0, "Macro: R%da" % n), (1, "Call macro: R%db" % n), (0, "Macro: R%db" % n), (1, "Call macro: R%da" % n),
            (0, "Call macro: R%d%s" % (n, draw(st.sampled_from("ab"))))]


@st.composite
def broken_unjudged(draw, n: int):
    """semantically broken / borderline lines that carry no expectation (totality and error=>paused only)"""
    tag = draw(st.sampled_from(SYSTEM_TAGS + UOD_TAGS + ["Run Time", "Process Time", "Clock", "Run Counter", "Connection Status", "Block Time"]))
    val = draw(st.sampled_from(["0", "1", "-1", "3.5", "abc", "Stopped", "Running", "1e9", "", "5 L/h", "5 s", "5 degC", "X", "99999999999999999999"]))
    forms = [
        "Mark", "Block", "Call macro", "Wait", "Wait: -1s", "Wait: 1 parsec", "Wait: 1", "Wait: 99999999999999999999 h", "Notify", "Batch", "Info",
        "Warning: w%d" % n, "Error: e%d" % n, "End block: x", "End blocks: 3", "Increment run counter: 5", "Run counter: -3",
        "Run counter: 99999999999999999999", "Run counter: 1.5", "Base: L", "Base: h", "Base: min", "Base: CV", "Base", "Base: ",
        "Simulate: %s = %s" % (tag, val), "Simulate: %s" % tag, "Simulate: %s = " % tag, "Simulate off: %s" % tag, "Simulate", "Simulate off",
        "Watch: %s > %s" % (tag, val), "Alarm: %s = %s" % (tag, val), "Watch: %s != %s" % (tag, val), "Watch: In1 >> 3", "Watch: In1 > 3 > 4",
        "Watch: In1 > 3 L/h L/h", "Watch: Str = A", "Watch: Sel = X", "Watch: Str > 3", "Alarm: Tot > 1 mL", "Watch: Clock > 0", "Watch: Run Time >= 0 s",
        "Watch: Run Time > 0.2 min", "Watch: Block Time > 0 s", "Watch: Base = s",
        "Mark: a: b", "Mark: #", "Mark: a # c", "Mark:", "Mark:x", "Stop: 3", "Restart: x", "Unpause: 4", "Unhold: 1", "Unpause", "Unhold", "Pause",
        "Hold", "Pause: 0s", "Hold: 0.1 min", "Pause: -1s", "Flow", "Flow: 3", "Flow: L/h", "Flow: -3 L/h", "Valve", "Valve: Open+Closed", "Quick",
        "Set1: 3", "Set2: -7", "Slow: 0", "Slow: 0.5", "OvA: 1", "Open1", "Open2: x", "Bad", "Macro", "Macro: M1", "Macro: ", "Call macro: M1", "Call macro: M9",
        "1.0", "abc Mark: x", "-1 Mark: a%d" % n, "99999999999999999999 Mark: a%d" % n, "0 Mark: a%d" % n, "1.0 1.0 Mark: a", "1. Mark: a", ".5 Mark: a%d" % n,
        "Noop", "Noop: 3", "Noop: x", "Start", "Start: 1",
    ]
    if draw(st.integers(0, 3)) == 0:   # assignments to / conditions on arbitrary (also system) tags
        return draw(st.sampled_from(["Simulate: %s = %s" % (tag, val), "Simulate: %s = %s" % (tag, val), "Simulate off: %s" % tag,
                                     "Watch: %s > %s" % (tag, val), "Alarm: %s = %s" % (tag, val)]))
    return draw(st.sampled_from(forms))


_TOKENS = ["Mark", "Block", "End block", "End blocks", "Watch", "Alarm", "Macro", "Call macro", "Wait", "Stop", "Pause", "Restart", "Base", "Simulate",
           "Quick", "Slow", "Bad", "Zork", ":", ":", "#", " ", "  ", "    ", "\t", "1.0", "0", "-", ">", "<", "=", "In1", "Nope", "L/h", "s", "°C", " ",
           "\x00", "\x0b", "\r", " ", "﻿", "​", "a", "m1", "3", "%", "\\", "'", '"', "{", "}", "\U0001f600"]


@st.composite
def hostile_line(draw):
    mode = draw(st.integers(0, 3))
    if mode == 0:
        s = draw(st.text(max_size=20))
    elif mode == 1:
        s = "".join(draw(st.lists(st.sampled_from(_TOKENS), min_size=1, max_size=8)))
    elif mode == 2:
        ind = draw(st.sampled_from(["", " ", "  ", "   ", "     ", "\t", " \t", "        ", "\t\t"]))
        s = ind + draw(st.sampled_from(["Mark: h", "Block: hb", "End block", "Watch: In2 > 1", "Wait: 0.2s", "Zork", "# c", "Quick: hq"]))
    else:
        s = draw(st.sampled_from(["Mark", "Watch", "Block", "Wait", "Call macro", "Simulate"])) + draw(st.sampled_from([":", " :", "::", ": ", ":#", " #"])) + \
            draw(st.text(max_size=8))
    return s.replace("\n", " ")


def _render_ids(tree):
    return [[l.id, l.text] for l in G.render(tree)]


@st.composite
def method_lines(draw, mix: str, deep: bool = False):
    """-> list of [id, text].  mix in wf | broken | odd | hostile | mixed | fixable | joint (several lines failing in one tick)"""
    cfg = CFG_FIX if mix in ("fixable", "joint") else (CFG_DEEP if deep else CFG_FULL)
    lines = _render_ids(draw(G.program(cfg)))
    if mix == "wf":
        return lines
    counter = [0]

    def fresh():
        counter[0] += 1
        return counter[0]

    def insert(pos, items, indent):
        for k, (d, text) in enumerate(items):
            lines.insert(pos + k, ["x%d" % fresh(), " " * (indent + 4 * d) + text])

    def indent_at(pos):
        if pos >= len(lines):
            return 0
        ind, _ = split_indent(lines[pos][1])
        return ind or 0

    if mix == "fixable":
        n_bad, n_unj, n_host = draw(st.sampled_from([1, 1, 1, 2])), 0, 0
    elif mix == "broken":
        n_bad, n_unj, n_host = draw(st.integers(1, 3)), draw(st.integers(0, 3)), 0
    elif mix == "joint":
        n_bad, n_unj, n_host = 0, 0, 0
    elif mix == "odd":
        n_bad, n_unj, n_host = 0, draw(st.integers(1, 4)), 0
    elif mix == "hostile":
        n_bad, n_unj, n_host = 0, 0, draw(st.integers(1, 5))
    else:
        n_bad, n_unj, n_host = draw(st.integers(0, 2)), draw(st.integers(0, 2)), draw(st.integers(0, 3))
    for _ in range(n_bad):
        items = draw(bad_item(100 + fresh()))
        top_only = items[0][1].startswith("Macro: R") or mix == "fixable" and draw(st.integers(0, 3)) > 0
        cands = [i for i in range(1, len(lines) + 1) if not top_only or indent_at(i) == 0]
        pos = draw(st.sampled_from(cands)) if cands else len(lines)
        ind = 0 if top_only else indent_at(pos)
        if draw(st.integers(0, 7)) == 0 and mix != "fixable" and not items[0][1].startswith("Macro"):
            items = [(items[0][0], "%s %s" % (draw(st.sampled_from(["0", "0.2", "0.5"])), items[0][1]))] + items[1:]
        insert(pos, items, ind)
    if mix == "joint" or (mix in ("broken", "mixed") and draw(st.integers(0, 3)) == 0):
        # several instructions failing in ONE tick: interrupts with the same time condition whose bodies start with a failing line
        thr = draw(st.sampled_from(["0.8", "1.5", "2.5"]))
        group = []
        for _ in range(draw(st.integers(2, 3))):
            items = draw(bad_item(100 + fresh()))
            if items[0][1].startswith("Macro: R"):
                items = [(0, "Wait: w%d" % (100 + fresh()))]
            group.append((0, "%s: Run Time > %s s" % (draw(st.sampled_from(["Watch", "Watch", "Alarm"])), thr)))
            group.extend((d + 1, t) for d, t in items)
        cands = [i for i in range(1, len(lines) + 1) if indent_at(i) == 0]
        insert((cands[0] if mix == "joint" else draw(st.sampled_from(cands))) if cands else len(lines), group, 0)
    for _ in range(n_unj):
        pos = draw(st.integers(1, len(lines)))
        text = draw(broken_unjudged(fresh()))
        items = [(0, text)] + ([(1, "Mark: mu%d" % fresh())] if is_container(text) else [])
        insert(pos, items, indent_at(pos))
    for _ in range(n_host):
        pos = draw(st.integers(0, len(lines)))
        if draw(st.booleans()):
            lines.insert(pos, ["x%d" % fresh(), draw(hostile_line())])
        else:   # replace an existing line
            if lines:
                lines[pos % len(lines)][1] = draw(hostile_line())
    return lines


@st.composite
def snippet(draw, n: int, mix: str):
    """injected pcode (1-3 lines)"""
    k = draw(st.integers(0, 9))
    if mix == "fixable" or k <= 4:
        return draw(st.sampled_from(["Mark: mi%d" % n, "Quick: qi%d" % n, "Slow: 2.9%02d" % (n % 100), "Wait: 0.3s", "Mark: mi%d\nMark: mj%d" % (n, n),
                                     "Block: bi%d\n    Mark: mi%d\n    End block" % (n, n), "Watch: In2 > 2\n    Mark: mi%d" % n, "Set1: 4.9%02d" % (n % 100),
                                     "Pause: 0.2s", "Hold: 0.2s", "Stop", ""]))
    if k <= 7:
        items = draw(bad_item(500 + n))
        return "\n".join("    " * d + t for d, t in items)
    if k == 8:
        return draw(broken_unjudged(n))
    return "\n".join(draw(st.lists(hostile_line(), min_size=1, max_size=3)))


USER_OPS = ["Pause", "Unpause", "Hold", "Unhold", "Stop", "Start", "Restart", "toggle-pause", "toggle-hold", "Open1", "Open2"]
_USER = st.sampled_from(["toggle-pause"] * 6 + ["toggle-hold"] * 3 + ["Pause", "Unpause", "Hold", "Unhold"] + ["Stop", "Start", "Start", "Restart"] +
                        ["Open1", "Open2"])
_USER_SOFT = st.sampled_from(["toggle-pause"] * 3 + ["toggle-hold"] * 2 + ["Open1", "Open2"])


MIXES = ("wf", "broken", "broken", "odd", "odd", "hostile", "mixed", "mixed", "fixable", "fixable", "joint")


@st.composite
def campaign(draw, mixes=MIXES, boom: bool = False, deep: bool = False):
    mix = draw(st.sampled_from(list(mixes)))
    lines = draw(method_lines(mix, deep))
    if boom and draw(st.integers(0, 7)) == 0:
        pos = draw(st.integers(1, len(lines)))
        ind = split_indent(lines[pos][1])[0] if pos < len(lines) else 0
        lines.insert(pos, ["xb", " " * (ind or 0) + "Boom: x"])
    steps = []
    quiet = mix in ("fixable", "joint")
    n = 0
    reissue = boom and draw(st.integers(0, 4)) == 0
    if reissue:
        # a long running command that is issued again while its previous instance still executes: body of a re-arming Alarm, or a
        # macro called twice; the schedule below gets scripted command faults
        k = 800 + draw(st.integers(0, 99))
        cmd = draw(st.sampled_from(["Slow", "Slow", "OvA"]))
        if draw(st.booleans()):
            grp = [["xr1", "Alarm: In2 >= 0"], ["xr2", "    %s: %d.%03d" % (cmd, draw(st.integers(6, 9)), k)]]
        else:
            grp = [["xr1", "Macro: M9"], ["xr2", "    %s: %d.%03d" % (cmd, draw(st.integers(3, 6)), k)], ["xr3", "Call macro: M9"]]
            for j in range(draw(st.integers(1, 2))):
                if draw(st.booleans()):
                    grp.append(["xr%d" % (5 + 2 * j), "Mark: mr%d" % j])
                grp.append(["xr%d" % (4 + 2 * j), "Call macro: M9"])
        lines[1:1] = grp
    for _ in range(draw(st.integers(3, 18 if deep else 10))):
        for _ in range(draw(st.integers(0, 1 if quiet else 2))):
            n += 1
            k = draw(st.integers(0, 19))
            if quiet:
                if k < 6:
                    steps.append(["user", draw(_USER_SOFT)])
                elif k < 10:
                    steps.append(["in", {draw(st.sampled_from(["In1", "In2", "Temp"])): float(draw(st.sampled_from([0, 1, 2, 3, 5, 8, 10])))}])
                elif k == 10:
                    steps.append(["inject", draw(snippet(n, mix))])
                elif k == 11:
                    steps.append(["cancel" if draw(st.booleans()) else "force", draw(st.integers(0, 5))])
            elif k < 8:
                steps.append(["user", draw(_USER)])
            elif k < 11:
                steps.append(["inject", draw(snippet(n, mix))])
            elif k < 13:
                steps.append(["in", {draw(st.sampled_from(["In1", "In2", "Temp"])): float(draw(st.sampled_from([0, 1, 2, 3, 5, 8, 10])))}])
            elif k < 16:
                steps.append([("cancel" if draw(st.booleans()) else "force") + ("@read" if boom and draw(st.integers(0, 2)) == 0 else ""),
                              draw(st.integers(0, 5))])
            else:
                op = draw(st.sampled_from(["append", "append", "replace", "insert", "delete"]))
                text = draw(st.sampled_from(["Mark: me%d" % n, "Quick: qe%d" % n, "Wait: 0.2s", "Zork: %d" % (900 + n), "Bad: %d" % (900 + n),
                                             "Watch: Nope%d > 3" % (900 + n), "", "# c"])) if draw(st.integers(0, 4)) else draw(hostile_line())
                steps.append(["edit", {"op": op, "pos": draw(st.integers(0, 30)), "text": text}])
        for _ in range(draw(st.integers(1, 7))):
            steps.append(["tick"])
            if reissue and (not any(x[0] == "fault" for x in steps) or draw(st.integers(0, 9)) == 0):
                steps.append(["fault", draw(st.integers(1, 8))])
    for _ in range(draw(st.integers(0, 12))):   # drain
        steps.append(["tick"])
    # second act: the same method (or one set while stopped) is run again after Stop + Start or Restart, so that an error of the
    # first run is followed by an error in a later run of the same engine
    second_act = None
    if mix in ("broken", "mixed", "fixable", "joint", "odd") and draw(st.integers(0, 3)) == 0:
        second_act = draw(st.sampled_from(["stop-start", "stop-start", "stop-edit-start", "restart"]))
        if second_act == "restart":
            steps.append(["user", "Restart"])
        else:
            steps.append(["user", "Stop"])
            steps.extend([["tick"]] * 3)
            if second_act == "stop-edit-start":
                steps.append(["edit", {"op": draw(st.sampled_from(["append", "insert"])), "pos": draw(st.integers(0, 30)),
                                       "text": draw(st.sampled_from(["Mark: ms1", "Wait: 0.2s", "Zork: 999", ""]))}])
            steps.append(["user", "Start"])
        for _ in range(draw(st.integers(12, 30))):
            steps.append(["tick"])
        if draw(st.booleans()):
            steps.append(["user", "toggle-pause"])
            steps.extend([["tick"]] * draw(st.integers(2, 6)))
    epilogue = draw(st.sampled_from(["fix", "fix", "fix", "stop"] if mix == "fixable" else ["stop", "stop", "fix", "none"]))
    return {"method": lines, "steps": steps, "epilogue": epilogue, "mix": mix, "second_act": second_act, "autostart": draw(st.integers(0, 11)) > 0,
            "inputs": {"In1": float(draw(st.sampled_from([0, 2, 5]))), "In2": float(draw(st.sampled_from([0, 2, 5]))),
                       "Temp": float(draw(st.sampled_from([0, 2, 5])))}}


# ---------------------------------------------------------------------------------------------------------------
# domain guard
# ---------------------------------------------------------------------------------------------------------------

def _text_ok(s) -> bool:
    return isinstance(s, str) and "\n" not in s and len(s) <= 200 and not any(0xD800 <= ord(c) <= 0xDFFF for c in s)


def valid(case) -> bool:
    try:
        if not isinstance(case, dict):
            return False
        m = case["method"]
        if not isinstance(m, list) or not all(isinstance(l, list) and len(l) == 2 and isinstance(l[0], str) and l[0] and _text_ok(l[1]) for l in m):
            return False
        if len({l[0] for l in m}) != len(m) or len(m) > 200:
            return False
        if any(l[0] == "root" or l[0].startswith("tail") or l[0].startswith("ed") for l in m):
            return False
        for s in case["steps"]:
            if not isinstance(s, list) or not s:
                return False
            if s[0] == "tick":
                if len(s) > 2 or (len(s) == 2 and not (isinstance(s[1], (int, float)) and not isinstance(s[1], bool) and 0 <= s[1] <= 5)):
                    return False
            elif s[0] == "user":
                if s[1] not in USER_OPS:
                    return False
            elif s[0] == "fault":
                if not (len(s) == 2 and isinstance(s[1], int) and not isinstance(s[1], bool) and 1 <= s[1] <= 20):
                    return False
            elif s[0] == "inject":
                if not isinstance(s[1], str) or len(s[1]) > 400 or any(0xD800 <= ord(c) <= 0xDFFF for c in s[1]):
                    return False
            elif s[0] == "in":
                if not (isinstance(s[1], dict) and all(k in ("In1", "In2", "Temp") and isinstance(v, (int, float)) and not isinstance(v, bool)
                                                        and -1e6 <= v <= 1e6 for k, v in s[1].items())):
                    return False
            elif s[0] in ("cancel", "force", "cancel@read", "force@read"):
                if not (isinstance(s[1], int) and not isinstance(s[1], bool) and 0 <= s[1] <= 1000):
                    return False
            elif s[0] == "edit":
                e = s[1]
                if not (isinstance(e, dict) and e.get("op") in ("append", "replace", "insert", "delete") and isinstance(e.get("pos"), int)
                        and not isinstance(e.get("pos"), bool) and 0 <= e["pos"] <= 1000 and _text_ok(e.get("text"))):
                    return False
            else:
                return False
        if len(case["steps"]) > 600:
            return False
        if case.get("epilogue", "none") not in ("none", "stop", "fix"):
            return False
        inp = case.get("inputs", {})
        return isinstance(inp, dict) and all(k in ("In1", "In2", "Temp") and isinstance(v, (int, float)) and not isinstance(v, bool) and -1e6 <= v <= 1e6
                                             for k, v in inp.items()) and isinstance(case.get("autostart", True), bool)
    except (KeyError, TypeError, IndexError):
        return False


# ---------------------------------------------------------------------------------------------------------------
# runner
# ---------------------------------------------------------------------------------------------------------------

class Rec:
    """one tick: state before / after, events raised during the tick, method state, optional run log"""
    __slots__ = ("no", "pre_state", "pre_status", "state", "status", "raised", "events", "started", "executed", "failed", "ms_exc",
                 "runlog", "runlog_exc", "gap", "epoch", "merged", "injected", "stop_pending", "phase", "lines", "foreign", "runlog_pat", "gap_events", "err_node", "interp_gate")


def innermost_frame(ex: BaseException) -> str:
    """'<file>:<function>' of the innermost traceback frame inside openpectus (signature material)"""
    tb = ex.__traceback__
    best = "?"
    while tb is not None:
        fn = tb.tb_frame.f_code.co_filename
        if "/openpectus/" in fn:
            best = "%s:%s" % (fn.split("/openpectus/")[-1], tb.tb_frame.f_code.co_name)
        tb = tb.tb_next
    return best


def runlog_view(h):
    """-> (items, exc): items as plain tuples (id, name, state, start, end, cancellable, forcible, cancelled, forced)"""
    try:
        rl = h.runlog()
    except Exception as ex:   # judged by C15 (the run log must always be producible)
        return None, ex
    return [(i.id, i.name, str(i.state), i.start, i.end, bool(i.cancellable), bool(i.forcible), bool(i.cancelled), bool(i.forced))
            for i in rl.items], None


_CONCLUSIVE = ("completed", "failed", "cancelled")


def runlog_raise_pattern(h) -> str:
    """signature material for a get_runlog() failure: '<conclusive state>><next state>' of the first record whose item
    generation raises (a state recorded after a conclusive one is what the item builder cannot handle), else the node class"""
    ri = h.engine.tracking.runtimeinfo
    for r in ri.records_filtered:
        try:
            ri._get_record_runlog_items(r)
        except Exception:
            pairs = []
            for states in ri._split_states_by_instance_id(r):
                names = [str(s.state_name.value) for s in states]
                first = next((i for i, n in enumerate(names) if n in _CONCLUSIVE), None)
                if first is not None and first < len(names) - 1:
                    pairs.append("%s>%s" % (names[first], names[first + 1]))
            return "|".join(sorted(set(pairs))) or "other:%s" % r.node_class_name
    return "unlocated"


class Campaign:
    """executes the steps of a case; `on_tick(rec)` style access through self.recs"""

    def __init__(self, case, with_runlog: bool):
        from vp.harness.engine_h import EngineHarness, MethodEditError, VT
        self.MethodEditError = MethodEditError
        self.case = case
        self.with_runlog = with_runlog
        self.lines = [list(l) for l in case["method"]]
        self.h = EngineHarness([tuple(l) for l in self.lines])
        self.h.set_inputs(**case.get("inputs", {}))
        self.recs: list[Rec] = []
        self.info = {"accepted": 0, "rejected": 0, "inject": 0, "inject_raised": 0, "edit_merge": 0, "edit_set": 0, "edit_refused": 0,
                     "edit_raised": 0, "cancel": 0, "force": 0, "cancel_none": 0, "cancel_raised": 0, "force_raised": 0}
        self.gap: list = []
        self.ev_idx = 0
        self.epoch = 0
        self.merged = False      # a live edit was accepted (method state is no longer tied to the running program: C01)
        self.injected = False
        self.foreign = False     # a user UOD command or a cancel/force request was issued (errors need not stem from a method line)
        self.edit_no = 0
        self.phase = "main"
        # scripted fault of a long-running UOD command (step ["fault", k], C15 only): the exec callback of a Slow/OvA/OvB instance
        # raises in its iteration k (k >= 1, i.e. an instance that is already running).  Installed from the outside on the command
        # builders of the harness unit.
        self.fault_armed = 0
        # a cancel / force request that is served while a tick is in its hardware read phase (steps "cancel@read" / "force@read"):
        # in production the request thread can take the engine lock between the moment the timer took the tick time and the
        # moment the tick takes the lock.  Single threaded equivalent: the request is made from inside the hardware read call
        # (the tick does not hold the lock there) and the clock has moved on a little since the tick time was taken.
        self.inread = None
        orig_read = self.h.hw.read

        def read(reg):
            if self.inread is not None:
                what, k = self.inread
                self.inread = None
                VT.now = VT.now + 0.03
                self.cancel_force(what, k)
                self.info["inread_requests"] = self.info.get("inread_requests", 0) + 1
            return orig_read(reg)
        self.h.hw.read = read   # type: ignore
        for name in ("Slow", "OvA", "OvB"):
            builder = self.h.uod.command_factories[name]
            builder.exec_fn = self._faulting(builder.exec_fn)

    def _faulting(self, orig):
        def exec_fn(cmd, value):
            if self.fault_armed and cmd.get_iteration_count() == self.fault_armed:
                self.fault_armed = 0
                self.h.events.append((self.h.tick_no, "cmd", cmd.name, cmd.instance_id, "fault", value, cmd.get_iteration_count()))
                self.info["fault_raised"] = self.info.get("fault_raised", 0) + 1
                raise RuntimeError("scripted device fault in command %s" % cmd.name)
            return orig(cmd, value)
        return exec_fn

    # -- steps ---------------------------------------------------------------------------------------------
    def _names_pending(self):
        cm = self.h.engine._command_manager
        return [q.name for q in list(cm.cmd_executing) + list(cm.cmd_queue.queue)]

    def user(self, name) -> bool:
        e = self.h.engine
        if name == "toggle-pause":
            name = "Unpause" if e._runstate_paused else "Pause"
        elif name == "toggle-hold":
            name = "Unhold" if e._runstate_holding else "Hold"
        try:
            self.h.user(name)
        except ValueError:
            self.info["rejected"] += 1
            self.gap.append(("user-rejected", name))
            return False
        self.info["accepted"] += 1
        if name in ("Open1", "Open2"):
            self.foreign = True
        self.gap.append(("user", name))
        return True

    def inject(self, text):
        self.info["inject"] += 1
        self.injected = True
        try:
            self.h.inject(text)
            self.gap.append(("inject", text))
        except Exception as ex:   # inject_code re-raises after entering the error state; not a tick, not judged here
            self.info["inject_raised"] += 1
            self.gap.append(("inject-raised", type(ex).__name__))

    def set_method(self, new_lines) -> str:
        """-> merge_method | set_method | refused | raised:<type>"""
        try:
            r = self.h.set_method([tuple(l) for l in new_lines])
        except self.MethodEditError:
            return "refused"
        except Exception as ex:
            return "raised:%s" % type(ex).__name__
        self.lines = [list(l) for l in new_lines]
        self.epoch += 1
        if r == "merge_method":
            self.merged = True
        return r

    def edit(self, e):
        new = [list(l) for l in self.lines]
        self.edit_no += 1
        nid = "ed%d" % self.edit_no
        op, pos = e["op"], e["pos"]
        if op == "append" or not new:
            new.append([nid, e["text"]])
        elif op == "insert":
            new.insert(pos % (len(new) + 1), [nid, e["text"]])
        elif op == "replace":
            new[pos % len(new)][1] = e["text"]
        else:
            del new[pos % len(new)]
        r = self.set_method(new)
        key = {"merge_method": "edit_merge", "set_method": "edit_set", "refused": "edit_refused"}.get(r, "edit_raised")
        self.info[key] += 1
        self.gap.append(("edit", r))

    def cancel_force(self, what, k):
        items, exc = runlog_view(self.h)
        cands = [i for i in (items or []) if i[5 if what == "cancel" else 6]]
        if not cands:
            self.info["cancel_none"] += 1
            return
        item = cands[k % len(cands)]
        self.info[what] += 1
        self.foreign = True
        try:
            if what == "cancel":
                self.h.engine.cancel_instruction(item[0])
            else:
                self.h.engine.force_instruction(item[0])
            self.gap.append((what, item[1]))
        except Exception as ex:   # C12's business; counted, the campaign goes on
            self.info[what + "_raised"] += 1
            self.gap.append((what + "-raised", type(ex).__name__))

    def tick(self, inc=None) -> Rec:
        h = self.h
        r = Rec()
        r.pre_state = h.state
        r.pre_status = str(h.tagv("Method Status"))
        pend = self._names_pending()
        e = h.engine
        # the engine's own gate for running the interpreter in the coming tick (engine.py, Engine.tick)
        r.interp_gate = bool(e._runstate_started and not e._runstate_paused and not e._runstate_holding and not e._runstate_stopping)
        r.gap_events = h.events[self.ev_idx:]      # events caused by requests between the ticks (not part of the tick)
        self.ev_idx = len(h.events)
        o = h.tick(inc)
        r.no, r.state, r.status, r.raised = o.no, o.state, o.status, o.raised
        r.events = h.events[self.ev_idx:]
        self.ev_idx = len(h.events)
        if any(e[1] in ("start", "stop") for e in r.events):
            self.epoch += 1
        # the instruction the engine itself blames for the (last) error signalled in this tick, if any
        r.err_node = None
        if any(e[1] == "method_error" for e in r.events) and h.last_error is not None:
            r.err_node = getattr(getattr(h.last_error, "node", None), "id", None)
        r.stop_pending = any(n in ("Stop", "Restart") for n in pend + self._names_pending())
        try:
            ms = h.method_state()
            r.started, r.executed, r.failed, r.ms_exc = list(ms.started_line_ids), list(ms.executed_line_ids), list(ms.failed_line_ids), None
        except Exception as ex:
            r.started, r.executed, r.failed, r.ms_exc = [], [], [], ex
        r.runlog_pat = None
        if self.with_runlog:
            r.runlog, r.runlog_exc = runlog_view(h)
            if r.runlog_exc is not None:
                r.runlog_pat = runlog_raise_pattern(h)
        else:
            r.runlog, r.runlog_exc = None, None
        r.gap, self.gap = self.gap, []
        r.epoch, r.merged, r.injected, r.phase, r.lines = self.epoch, self.merged, self.injected, self.phase, self.lines
        r.foreign = self.foreign
        self.recs.append(r)
        return r

    def run_steps(self):
        """main phase; stops at the first tick that raised.  -> False when a tick raised"""
        c = self.case
        steps = ([["user", "Start"], ["tick"]] if c.get("autostart", True) else []) + list(c["steps"])
        for s in steps:
            if s[0] == "tick":
                if self.tick(float(s[1]) if len(s) > 1 else None).raised is not None:
                    return False
            elif s[0] == "user":
                self.user(s[1])
            elif s[0] == "inject":
                self.inject(s[1])
            elif s[0] == "in":
                self.h.set_inputs(**s[1])
            elif s[0] == "edit":
                self.edit(s[1])
            elif s[0] in ("cancel@read", "force@read"):
                self.inread = (s[0].split("@")[0], s[1])
            elif s[0] == "fault":
                self.fault_armed = int(s[1])
                self.foreign = True
                self.gap.append(("fault", s[1]))
            else:
                self.cancel_force(s[0], s[1])
        return True

    def close(self):
        self.h.close()
