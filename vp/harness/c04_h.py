"""Helper of the C04 check (Watch runs once after its condition holds; Alarm re-arms).

Composes the shared engine harness and P-code generator (neither is modified):

* tree strategies  - `pcode_gen.program` with interrupt-heavy weights plus directed *shape templates* (Watch/Alarm in a
  block that ends by threshold, End block issued from another interrupt, Block inside an Alarm with a Watch inside,
  Watch in Alarm, Alarm in Watch); every Watch/Alarm body gets a sentinel `Mark` as first line.
* trajectories     - piecewise constant inputs whose values are taken around the condition constants (converted exactly
  into the tag's unit), so conditions switch several times, including single-tick pulses.
* requests         - cancel / force on run-log items of Watch/Alarm lines, chosen at run time among the items the run
  log offers at that tick (index modulo number of eligible items); 'endblock' = a user End block request (injected code).
* run(case)        - executes a case on the real Engine and returns a Trace: the harness event log (extended with the
  request events), the per-tick state, and - per tick and condition tag - the *exact list of values the tag showed to
  the interpreter* in that tick (value after the hardware read, value after every Simulate / Simulate off).
* truth(cond, v)   - the condition evaluated by the harness itself with exact rational arithmetic.
"""
from __future__ import annotations

from fractions import Fraction

from hypothesis import strategies as st

from vp.harness import pcode_gen as G

COND_TAGS = ("In1", "In2", "Temp")
TAG_UNIT = {"In1": "L/h", "In2": None, "Temp": "degC"}
INTERRUPT_KINDS = ("watch", "alarm")

# ---------------------------------------------------------------------------------------------
# exact condition evaluation
# ---------------------------------------------------------------------------------------------


def const_in_tag_unit(cond) -> Fraction | None:
    """the condition constant converted exactly into the unit of the tag; None = not a condition of the domain"""
    tag, unit = cond.get("tag"), cond.get("unit")
    if tag not in TAG_UNIT:
        return None
    try:
        c = Fraction(str(cond["val"]))
    except (ValueError, ZeroDivisionError, KeyError):
        return None
    tu = TAG_UNIT[tag]
    if unit == tu:
        return c
    if tu == "L/h" and unit == "L/min":
        return c * 60
    if tu == "degC" and unit == "K":
        return c - Fraction("273.15")
    if tu == "degC" and unit == "degF":
        return (c - 32) * Fraction(5, 9)
    return None


def truth(cond, value) -> bool | None:
    """True/False = the condition definitely holds / does not hold for this tag value; None = cannot be decided here"""
    c = const_in_tag_unit(cond)
    if c is None or isinstance(value, bool):
        return None
    try:
        v = Fraction(str(value))
    except (ValueError, ZeroDivisionError):
        return None
    op = cond.get("op")
    if op == "<":
        return v < c
    if op == "<=":
        return v <= c
    if op == ">":
        return v > c
    if op == ">=":
        return v >= c
    if op in ("=", "=="):
        return v == c
    if op == "!=":
        return v != c
    return None


# ---------------------------------------------------------------------------------------------
# trees
# ---------------------------------------------------------------------------------------------

KINDS = {"mark": 5, "wait": 3, "block": 3, "watch": 4, "alarm": 3, "endblock": 2, "endblocks": 1, "simulate": 1,
         "simoff": 1, "quick": 1, "slow": 1, "blank": 1, "comment": 1}


def gen_cfg(deep: bool) -> G.GenCfg:
    return G.GenCfg(kinds=dict(KINDS), max_depth=4 if deep else 3, max_top=8 if deep else 6, max_children=4 if deep else 3,
                    thresholds=True, threshold_max=1.5, wait_max=1.5 if deep else 1.0, base_first="s", trailing_ws=True)


def _mark():
    return {"k": "mark", "t": None}


def add_sentinels(nodes):
    """first line of every Watch/Alarm body becomes an unconditional Mark (the observable start of a body run);
    Simulate lines use the tag's own unit (Simulate with another comparable unit, e.g. `Simulate: Temp = 8 K`, raises a
    TypeError in the tree under test and ends the run in error state - subject of C13/C20, not of C04)"""
    for n in nodes:
        if n["k"] == "simulate" and n.get("tag") in TAG_UNIT:
            n["unit"] = TAG_UNIT[n["tag"]]
        if "c" in n:
            add_sentinels(n["c"])
            if n["k"] in INTERRUPT_KINDS:
                n["c"].insert(0, {"k": "mark", "t": None, "s": 1})
    return nodes


@st.composite
def _filler(draw, lo=0, hi=3, allow_wait=True):
    out = []
    for _ in range(draw(st.integers(lo, hi))):
        k = draw(st.sampled_from(["mark", "mark", "wait", "quick"] if allow_wait else ["mark", "quick"]))
        n = {"k": k, "t": None}
        if k == "wait":
            n["d"] = draw(st.sampled_from([0.1, 0.2, 0.3, 0.5, 0.7, 1.0]))
        out.append(n)
    return out


@st.composite
def _interrupt(draw, cfg, body, kind=None):
    k = kind or draw(st.sampled_from(["watch", "alarm"]))
    return {"k": k, "t": None, "cond": draw(G.condition(cfg)), "c": body}


@st.composite
def template(draw, cfg: G.GenCfg):
    """directed shapes; every one keeps the JSON format of pcode_gen so render() applies"""
    shape = draw(st.sampled_from(["block-threshold", "end-from-other", "alarm-block-watch", "watch-in-alarm",
                                  "alarm-in-watch", "self-end", "two-level-blocks", "ender-then-late-line", "ender-then-late-line",
                                  "late-line-in-block", "alarm-with-block", "alarm-with-block"]))
    end_t = draw(st.sampled_from([None, 0.3, 0.6, 1.0, 1.5]))
    if shape == "block-threshold":
        x = draw(_interrupt(cfg, draw(_filler(0, 3))))
        y = draw(st.lists(_interrupt(cfg, draw(_filler(0, 2))), max_size=1))
        body = [x] + y + draw(_filler(0, 3))
        blk = {"k": "block", "t": None, "c": body, "end": "endblock", "end_t": end_t}
        top = draw(_filler(0, 1)) + [blk] + draw(_filler(1, 3)) + [{"k": "wait", "t": None, "d": 1.0}]
    elif shape == "end-from-other":
        x = draw(_interrupt(cfg, draw(_filler(0, 3))))
        ender = draw(_interrupt(cfg, draw(_filler(0, 1)) + [{"k": draw(st.sampled_from(["endblock", "endblock", "endblocks"])), "t": None}]
                                + draw(_filler(0, 1))))
        order = [x, ender] if draw(st.booleans()) else [ender, x]
        body = order + draw(_filler(0, 2)) + [{"k": "wait", "t": None, "d": draw(st.sampled_from([0.5, 1.0, 1.5]))}]
        blk = {"k": "block", "t": None, "c": body, "end": "endblock", "end_t": None}
        top = [blk] + draw(_filler(1, 3)) + [{"k": "wait", "t": None, "d": 1.0}]
    elif shape == "alarm-block-watch":
        w = draw(_interrupt(cfg, draw(_filler(0, 2)), kind=draw(st.sampled_from(["watch", "watch", "alarm"]))))
        blk = {"k": "block", "t": None, "c": [w] + draw(_filler(0, 2)), "end": "endblock", "end_t": None}
        a = draw(_interrupt(cfg, draw(_filler(0, 1)) + [blk] + draw(_filler(0, 1)), kind="alarm"))
        top = [a] + draw(_filler(1, 3)) + [{"k": "wait", "t": None, "d": 1.5}]
    elif shape == "watch-in-alarm":
        w = draw(_interrupt(cfg, draw(_filler(0, 3)), kind="watch"))
        a = draw(_interrupt(cfg, draw(_filler(0, 2)) + [w] + draw(_filler(0, 1)), kind="alarm"))
        top = draw(_filler(0, 1)) + [a] + draw(_filler(1, 3)) + [{"k": "wait", "t": None, "d": 1.5}]
    elif shape == "alarm-in-watch":
        a = draw(_interrupt(cfg, draw(_filler(0, 2)), kind="alarm"))
        w = draw(_interrupt(cfg, draw(_filler(0, 2)) + [a] + draw(_filler(0, 1)), kind="watch"))
        top = draw(_filler(0, 1)) + [w] + draw(_filler(1, 3)) + [{"k": "wait", "t": None, "d": 1.5}]
    elif shape == "self-end":
        x = draw(_interrupt(cfg, draw(_filler(0, 2)) + [{"k": draw(st.sampled_from(["endblock", "endblocks"])), "t": None}] + draw(_filler(1, 2))))
        body = [x] + draw(_filler(0, 2)) + [{"k": "wait", "t": None, "d": draw(st.sampled_from([0.5, 1.0, 1.5]))}]
        blk = {"k": "block", "t": None, "c": body, "end": "endblock", "end_t": None}
        top = [blk] + draw(_filler(1, 3)) + [{"k": "wait", "t": None, "d": 1.0}]
    elif shape == "ender-then-late-line":
        # an interrupt that ends the block, then 0-5 two-tick lines, then the interrupt line under test: the End block lands
        # on every tick offset around the start of that line (entered by main, not yet registered)
        ender = draw(_interrupt(cfg, [{"k": draw(st.sampled_from(["endblock", "endblock", "endblocks"])), "t": None}]))
        x = draw(_interrupt(cfg, draw(_filler(0, 2))))
        body = [ender] + draw(_filler(0, 5, allow_wait=False)) + [x] + draw(_filler(0, 2)) + \
            [{"k": "wait", "t": None, "d": draw(st.sampled_from([0.5, 1.0, 1.5]))}]
        blk = {"k": "block", "t": None, "c": body, "end": "endblock", "end_t": None}
        top = draw(_filler(0, 1)) + [blk] + draw(_filler(1, 2)) + [{"k": "wait", "t": None, "d": 1.5}]
    elif shape == "late-line-in-block":
        # the block is meant to be ended by a user End block request (cases() adds them at early ticks)
        x = draw(_interrupt(cfg, draw(_filler(0, 2))))
        body = draw(_filler(0, 3, allow_wait=False)) + [x] + draw(_filler(0, 1)) + [{"k": "wait", "t": None, "d": 1.5}]
        blk = {"k": "block", "t": None, "c": body, "end": "endblock", "end_t": None}
        top = draw(_filler(0, 1)) + [blk] + draw(_filler(1, 2)) + [{"k": "wait", "t": None, "d": 1.5}]
    elif shape == "alarm-with-block":
        blk = {"k": "block", "t": None, "c": draw(_filler(0, 2)), "end": draw(st.sampled_from(["endblock", "endblock", "endblocks"])), "end_t": None}
        a = draw(_interrupt(cfg, draw(_filler(0, 1)) + [blk] + draw(_filler(0, 2)), kind="alarm"))
        top = draw(_filler(0, 1)) + [a] + draw(_filler(1, 3)) + [{"k": "wait", "t": None, "d": 1.5}]
    else:  # two-level-blocks
        x = draw(_interrupt(cfg, draw(_filler(0, 2))))
        inner = {"k": "block", "t": None, "c": [x] + draw(_filler(0, 2)), "end": draw(st.sampled_from(["endblock", "endblocks"])), "end_t": end_t}
        y = draw(_interrupt(cfg, draw(_filler(0, 2))))
        outer = {"k": "block", "t": None, "c": [y, inner] + draw(_filler(0, 2)), "end": "endblock", "end_t": None}
        top = [outer] + draw(_filler(1, 2)) + [{"k": "wait", "t": None, "d": 1.0}]
    return {"base": "s", "body": top}


@st.composite
def trees(draw, deep: bool):
    cfg = gen_cfg(deep)
    if draw(st.integers(0, 9)) < 4:
        tree = draw(template(cfg))
    else:
        tree = draw(G.program(cfg))
    add_sentinels(tree["body"])
    return tree


def conditions_of(tree) -> list[dict]:
    out = []

    def w(nodes):
        for n in nodes:
            if n["k"] in INTERRUPT_KINDS and isinstance(n.get("cond"), dict):
                out.append(n["cond"])
            if "c" in n:
                w(n["c"])
    w(tree["body"])
    return out


# ---------------------------------------------------------------------------------------------
# trajectories and requests
# ---------------------------------------------------------------------------------------------

OFFSETS = [-2, -1, -0.5, 0, 0, 0.5, 1, 2]


@st.composite
def trajectories(draw, tree, n_ticks: int):
    """change points [tick, {tag: value}]: per condition tag a walk over values around the constants of its conditions"""
    conds = conditions_of(tree)
    by_tag: dict = {}
    for c in conds:
        k = const_in_tag_unit(c)
        if k is not None:
            by_tag.setdefault(c["tag"], []).append(k)
    pts = []
    for tag in sorted(by_tag):
        consts = by_tag[tag]
        n = draw(st.integers(0, 8))
        tick = draw(st.integers(0, 12))
        for _ in range(n):
            k = draw(st.sampled_from(consts))
            v = float(k + Fraction(str(draw(st.sampled_from(OFFSETS)))))
            pts.append([tick, {tag: v}])
            tick += draw(st.sampled_from([1, 1, 2, 3, 4, 6, 9, 14, 20]))
            if tick >= n_ticks:
                break
    pts.sort(key=lambda p: p[0])
    return pts


@st.composite
def requests(draw, n_ticks: int, in_block: bool = False):
    """cancel / force on offered run-log items; 'endblock' = the user's End block request (injected code) between two ticks,
    drawn at early ticks so that it lands around the start of the lines of a block"""
    out = []
    for _ in range(draw(st.sampled_from([0, 0, 1, 1, 2, 3]))):
        out.append([draw(st.integers(3, max(3, n_ticks - 5))), draw(st.sampled_from(["cancel", "force"])), draw(st.integers(0, 7))])
    for _ in range(draw(st.sampled_from([0, 1, 1, 2] if in_block else [0, 0, 0, 1]))):
        out.append([draw(st.integers(3, min(30, max(3, n_ticks - 5)))), "endblock", 0])
    out.sort(key=lambda r: (r[0], r[1], r[2]))
    return out


@st.composite
def cases(draw, deep: bool):
    tree = draw(trees(deep))
    n_ticks = draw(st.sampled_from([60, 80, 100] if not deep else [80, 120, 160, 200]))
    lines = G.render(tree)
    by_id = {l.id: l for l in lines}
    in_block = any(l.kind in INTERRUPT_KINDS and l.parent and by_id[l.parent].kind == "block" for l in lines)
    return {"tree": tree, "n_ticks": n_ticks, "traj": draw(trajectories(tree, n_ticks)), "reqs": draw(requests(n_ticks, in_block))}


def valid(case) -> bool:
    """the input domain (the shrinker produces arbitrary sub-cases)"""
    try:
        if not isinstance(case, dict) or not isinstance(case.get("tree"), dict) or not isinstance(case["tree"].get("body"), list):
            return False
        n = case.get("n_ticks")
        if not isinstance(n, int) or isinstance(n, bool) or not 1 <= n <= 400:
            return False
        lines = G.render(case["tree"])
        for l in lines:
            if l.kind in INTERRUPT_KINDS:
                c = l.node.get("cond")
                if not isinstance(c, dict) or const_in_tag_unit(c) is None or c.get("op") not in G.OPS:
                    return False
            if l.kind in ("macro", "callmacro", "stop", "restart", "pause", "hold"):
                return False
            if l.kind in ("simulate", "simoff") and l.node.get("tag") not in COND_TAGS:
                return False
            if l.kind == "simulate" and (isinstance(l.node.get("v"), bool) or not isinstance(l.node.get("v"), (int, float))
                                         or l.node.get("unit") != TAG_UNIT[l.node["tag"]]):
                return False
            t = l.node.get("t") if l.node else None
            if t is not None and not (isinstance(t, (int, float)) and 0 <= t <= 10):
                return False
        for p in case.get("traj", []):
            if not (isinstance(p, list) and len(p) == 2 and isinstance(p[0], int) and isinstance(p[1], dict)):
                return False
            for k, v in p[1].items():
                if k not in COND_TAGS or isinstance(v, bool) or not isinstance(v, (int, float)) or not -1e6 < v < 1e6:
                    return False
        for r in case.get("reqs", []):
            if not (isinstance(r, list) and len(r) == 3 and isinstance(r[0], int) and r[1] in ("cancel", "force", "endblock")
                    and isinstance(r[2], int) and r[2] >= 0):
                return False
        return True
    except Exception:   # a malformed tree (shrinker) is outside the domain, not an error of the tree under test
        return False


# ---------------------------------------------------------------------------------------------
# running a case
# ---------------------------------------------------------------------------------------------

class Trace:
    def __init__(self):
        self.lines = []        # pcode_gen.Line
        self.events = []       # harness events + ("req", kind, node_id, accepted)
        self.states = []       # state at the end of tick i
        self.cands = []        # per tick: {tag: [values shown to the interpreter in that tick]}
        self.raised = None
        self.endblock_exec = []      # (tick, line id) of every execution of an End block / End blocks line
        self.runlog_failed = False   # get_runlog() raised its own AssertionError (subject of C15): no further requests
        self.req_stats = {"accepted": 0, "rejected": 0, "no-candidate": 0}


def run(case) -> Trace:
    from vp.harness.engine_h import EngineHarness
    tr = Trace()
    tr.lines = G.render(case["tree"])
    irq_ids = {l.id for l in tr.lines if l.kind in INTERRUPT_KINDS}
    h = EngineHarness(G.as_method_lines(tr.lines))
    cur: dict = {}

    def wrap(tag, name):
        orig = getattr(tag, name)

        def f(*a, **k):
            r = orig(*a, **k)
            cur.setdefault(tag.name, []).append(tag.get_value())
            return r
        setattr(tag, name, f)

    try:
        for tn in COND_TAGS:
            tag = h.engine.tags[tn]
            assert tag is h.uod.tags[tn]
            for m in ("set_value", "simulate_value", "simulate_value_and_unit", "stop_simulation"):
                wrap(tag, m)
        reqs = sorted(case.get("reqs", []), key=lambda r: (r[0], str(r[1]), r[2]))
        h.user("Start")
        for t in range(case["n_ticks"]):
            inp = G.traj_at(case.get("traj", []), t)
            if inp:
                h.set_inputs(**{k: float(v) for k, v in inp.items()})
            for r in reqs:
                if r[0] != t:
                    continue
                if r[1] == "endblock":
                    if tr.states and tr.states[-1] == "Running":
                        h.inject("End block")
                        h.events.append((h.tick_no + 1, "req", "endblock", None, True))
                    continue
                items = []
                if tr.runlog_failed:
                    continue
                try:
                    rl_items = h.runlog().items
                except AssertionError as ex:
                    if "Error generating runlog" not in str(ex):
                        raise
                    tr.runlog_failed = True      # the offers cannot be read: nothing is requested (classified, judged by C15)
                    continue
                for it in rl_items:
                    rec = h.engine.tracking.get_record_by_instance_id(it.id)
                    if rec is not None and rec.node_id in irq_ids and (it.cancellable if r[1] == "cancel" else it.forcible):
                        items.append((it.id, rec.node_id))
                if not items:
                    tr.req_stats["no-candidate"] += 1
                    continue
                iid, nid = items[r[2] % len(items)]
                try:
                    if r[1] == "cancel":
                        h.engine.cancel_instruction(iid)
                    else:
                        h.engine.force_instruction(iid)
                    ok = True
                except ValueError:      # the documented rejection path (subject of C12)
                    ok = False
                tr.req_stats["accepted" if ok else "rejected"] += 1
                h.events.append((h.tick_no + 1, "req", r[1], nid, ok))
            cur.clear()
            o = h.tick()
            # a tag without any change call in this tick keeps showing its previous value
            tr.cands.append({tn: list(cur.get(tn, [])) or [h.engine.tags[tn].get_value()] for tn in COND_TAGS})
            tr.states.append(o.state)
            if o.raised is not None:
                tr.raised = o.raised
                break
        tr.events = list(h.events)
        # ticks at which the End block / End blocks lines of the method executed (run-time records: the source of the run
        # log); used to tell which thread ended a block
        end_ids = {l.id for l in tr.lines if l.kind in ("endblock", "endblocks")}
        for rec in h.engine.tracking.runtimeinfo.records:
            if rec.node_id in end_ids:
                for stt in rec.states:
                    if str(stt.state_name) == "started":
                        tr.endblock_exec.append((int(stt.state_tick), rec.node_id))
        tr.endblock_exec.sort()
    finally:
        h.close()
    return tr


_CAL: dict = {}


def calibrate() -> dict:
    """Latency of the tree under test from 'condition visible to the interpreter' to 'first body effect', measured once per
    process on a fixed method; {'latency': ticks or None}."""
    if _CAL:
        return _CAL
    case = {"tree": {"base": "s", "body": [{"k": "watch", "t": None, "cond": {"tag": "In2", "op": ">", "val": 0, "unit": None},
                                             "c": [{"k": "mark", "t": None, "s": 1}]},
                                            {"k": "wait", "t": None, "d": 1.5}]},
            "n_ticks": 40, "traj": [[12, {"In2": 1.0}]], "reqs": []}
    tr = run(case)
    sent = [l.payload for l in tr.lines if l.kind == "mark"][0]
    eff = [e[0] for e in tr.events if e[1] == "mark" and e[2] == sent]
    arm = [e[0] for e in tr.events if e[1] == "scope_start" and e[2] == "Watch"]
    first_true = next((i for i, c in enumerate(tr.cands) if any(truth(case["tree"]["body"][0]["cond"], v) for v in c["In2"])), None)
    if eff and arm and first_true is not None and arm[0] < first_true <= eff[0]:
        _CAL.update({"latency": eff[0] - first_true + 1})
    else:
        _CAL.update({"latency": None})
    return _CAL
