"""CLI: python -m vp.run CNN --tier quick|thorough   |   python -m vp.run CNN --replay FILE"""
from __future__ import annotations

import argparse
import importlib
import logging
import os
import sys
import traceback


def main(argv=None) -> int:
    ap = argparse.ArgumentParser()
    ap.add_argument("prop")
    ap.add_argument("--tier", default=os.environ.get("VERIF_TIER", "quick"), choices=["quick", "thorough"])
    ap.add_argument("--replay", default=None)
    ap.add_argument("--seed", type=int, default=None)
    a = ap.parse_args(argv)
    seed = a.seed if a.seed is not None else int(os.environ.get("VERIF_SEED", "1") or 1)

    if os.environ.get("PYTHONHASHSEED") != "0":
        os.environ["PYTHONHASHSEED"] = "0"
        os.execv(sys.executable, [sys.executable, "-m", "vp.run"] + (argv or sys.argv[1:]))

    logging.disable(logging.CRITICAL)
    try:
        repo = os.environ.get("VERIF_REPO", "/repo").rstrip("/")
        if sys.path[0] != repo:
            sys.path.insert(0, repo)
        import openpectus
        if not os.path.abspath(openpectus.__file__).startswith(repo + "/"):
            sys.stderr.write("HARNESS-ERROR: openpectus imported from %s, not %s\n" % (openpectus.__file__, repo))
            return 2
        from vp.core import framework
        mod = importlib.import_module("vp.props." + a.prop.lower())
        if a.replay:
            return framework.replay_file(mod, a.replay)
        return framework.run_property(mod, a.tier, seed)
    except SystemExit:
        raise
    except BaseException:
        sys.stderr.write("HARNESS-ERROR property=%s\n%s\n" % (a.prop, traceback.format_exc()))
        return 2


if __name__ == "__main__":
    sys.exit(main())
